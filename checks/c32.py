"""C32 - Operations through a smart server match local operations.

Differential bounded search over operation sequences: the full alphabet {commit (memory
tree), commit via a lightweight checkout, pull from an ahead branch, pull / overwriting pull
from a diverged branch, push into the subject, overwriting push, fetch a revision, set tag,
delete tag, set config option, set last revision info, lock_write, unlock, reopen,
read-everything (tip, revno, tags, option, get_parent_map incl. a ghost key, has_revision,
all_revision_ids, revision trees, revision record, revno<->revid, merge-sorted history,
graph heads, stacked-on, lock status), pull FROM the subject into a local branch} up to
length 2 (quick) / 3 (thorough), a core sub-alphabet up to length 3 / 4, and - because caches
only survive inside one lock - lock_write followed by every word of length 3 (quick) / <= 4
(thorough) over {commit, pull-src, fetch, set-tag, read-everything, unlock} and of length 4 / 5
over {commit, pull-src, read-everything}; the reads include
the versioned-file level (revisions/inventories/texts keys); on 1 (quick) / 2 (thorough)
generated template histories, is executed on identical mc.vfs stores three times: on the
local ``vfs+...`` URL, through an in-process smart server (real client medium, protocol v3,
real SmartServerPipeStreamMedium + request handlers, RemoteBranch/RemoteRepository) and
through the same server with a client forced to protocol v2 / "server older than 1.6"
(VFS fallback paths).  Oracle: after every sequence the returned value or exception class of
every step equals the local one, and the canonical logical dump of the store read back
locally (per branch: tip, tags, parsed branch.conf, physical lock status; per repository:
revision ids with strict testaments) equals the local store's.
"""
import itertools
import os
import shutil

from mc import par
from mc.evidence import HarnessError

ID = "C32"
LEVEL = "model_checking"
TECHNIQUE = ("bounded exhaustive operation-sequence search, differential: local transport vs in-process smart "
             "server (protocol v3 and forced v2) on identical stores, canonical store dumps + returned values")

SIDES = ("local", "v3", "v2")
BRANCHES = ("tgt", "src", "div", "oth")
KEYS = (b"r1", b"r2", b"r3", b"d2", b"c0", b"c1", b"c2", b"c3", b"c4", b"ghost")

FULL = ("commit", "commit-co", "pull-src", "pull-div", "pull-div-ow", "push-src", "push-div-ow", "fetch-r3",
        "set-tag", "del-tag", "set-opt", "set-tip", "lock", "unlock", "reopen", "obs", "revs", "oth-pull")
CORE = ("commit", "pull-src", "pull-div-ow", "push-src", "set-tag", "del-tag", "lock", "unlock", "obs")
QCORE = ("lock", "unlock", "commit", "pull-src", "set-tag", "obs")       # quick tier core, <= 3
LOCKED = ("commit", "pull-src", "fetch-r3", "set-tag", "obs", "unlock")   # after an initial lock_write

# ---- template histories --------------------------------------------------------------------------
_TEMPLATES = {}
_FMTCLASS = {}         # template key -> signature suffix naming the class of repository format


def _spec(i):
    from mc import world as mw
    s = {"a": mw.F(b"a-id", b"content %d\n" % i), "d": mw.D(b"d-id"), "d/b": mw.F(b"b-id", b"b%d\n" % (i // 2))}
    if i % 3 == 0:
        s["x"] = mw.F(b"x-id", b"exec\n", True)
    return s


def template(hist):
    """Snapshot of a store with branches tgt (the subject, at r1), src (ahead), div (diverged), oth (at r1)."""
    if hist in _TEMPLATES:
        return _TEMPLATES[hist]
    key = hist
    hist, _sep, fmt = hist.partition("@")
    fmt = fmt or "2a"
    from mc import vfs
    from mc import world as mw
    store = vfs.new_store()
    src = mw.make_branch(store.url + "src", fmt)
    mw.commit_spec(src, b"r1", [], _spec(1), timestamp=1000.0)
    for name in ("tgt", "div", "oth"):
        src.controldir.sprout(store.url + name, revision_id=b"r1")
    from breezy.branch import Branch
    div = Branch.open(store.url + "div")
    mw.commit_spec(div, b"d2", [b"r1"], _spec(12), timestamp=1003.0)
    mw.commit_spec(src, b"r2", [b"r1"], _spec(2), timestamp=1001.0)
    if hist == "linear":
        mw.commit_spec(src, b"r3", [b"r2"], _spec(3), timestamp=1002.0)
    elif hist == "merge":
        src.repository.fetch(div.repository, revision_id=b"d2")
        mw.commit_spec(src, b"r3", [b"r2", b"d2"], _spec(3), timestamp=1002.0)
    else:
        raise ValueError(hist)
    tgt = Branch.open(store.url + "tgt")
    if src.supports_tags():
        src.tags.set_tag("v1", b"r1")
        src.tags.set_tag("v3", b"r3")
        div.tags.set_tag("v1", b"d2")          # conflicts with src's v1 when both reach the subject
        tgt.tags.set_tag("old", b"r1")
    tgt.get_config_stack().set("verif.key", "initial")
    for name in BRANCHES:
        b = Branch.open(store.url + name)
        if b.get_parent() is not None:
            b.set_parent(None)
    snap = store.walk()
    store.close()
    _TEMPLATES[key] = snap
    ser = getattr(src.repository._format, "_inventory_serializer", None)
    num = getattr(ser, "format_num", b"?")
    _FMTCLASS[key] = "" if fmt == "2a" else "@serializer-%s" % (num.decode() if isinstance(num, bytes) else num)
    return snap


def extra_formats():
    """One registry name per distinct bzr repository format other than 2a, with its
    (rich_root, tree_reference, chk) flags - computed from the registry, nothing hard-coded."""
    from breezy import controldir
    base = controldir.format_registry.make_controldir("2a").repository_format.network_name()
    seen = {}
    for k in sorted(controldir.format_registry.keys()):
        try:
            f = controldir.format_registry.make_controldir(k)
            rf = f.repository_format
            net = rf.network_name()
        except Exception:  # noqa  formats that cannot be instantiated here
            continue
        if net == base or not net.startswith(b"Bazaar") or not rf.is_supported():
            continue
        seen.setdefault(net, (k, (bool(rf.rich_root_data), bool(rf.supports_tree_reference),
                                  bool(getattr(rf, "supports_chks", False)))))
    return sorted(seen.values())


# ---- one side of an execution --------------------------------------------------------------------
class Side:

    def __init__(self, name, hist, seqno):
        from mc import vfs

        from . import _loopback_l as lb
        self.name = name
        self.store = vfs.new_store()
        self.store.load(template(hist))
        self.store.logging = False
        self.key = None
        if name == "local":
            self.url = self.store.url
        else:
            self.key = "c32x%dx%s" % (os.getpid(), name)
            self.url = lb.serve_url(self.key, self.store.url, 2 if name == "v2" else None)
        self.depth = 0
        self.step = 0
        self.b = None
        self.trees = []
        self._local = {}

    def canon(self, x):
        """Make values comparable across stores: strip the store / server URL prefixes."""
        if isinstance(x, str):
            return x.replace(self.url, "<U>/").replace(self.store.url, "<U>/")
        if isinstance(x, bytes):
            return x.replace(self.url.encode(), b"<U>/").replace(self.store.url.encode(), b"<U>/")
        if isinstance(x, (list, tuple)):
            return tuple(self.canon(i) for i in x)
        if isinstance(x, dict):
            return tuple(sorted((self.canon(k), self.canon(v)) for k, v in x.items()))
        if isinstance(x, (int, float, bool)) or x is None:
            return x
        return repr(type(x).__name__)

    def subject(self):
        from breezy.branch import Branch
        if self.b is None:
            self.b = Branch.open(self.url + "tgt")
        return self.b

    def local(self, name):
        from breezy.branch import Branch
        if name not in self._local:
            self._local[name] = Branch.open(self.store.url + name)
        return self._local[name]

    def close(self):
        from . import _loopback_l as lb
        try:
            while self.depth > 0 and self.b is not None:
                self.depth -= 1
                self.b.unlock()
        except Exception:  # noqa
            pass
        for d in self.trees:
            shutil.rmtree(d, ignore_errors=True)
        if self.key:
            self.requests = lb.request_count(self.key)
            lb.unserve(self.key)
        else:
            self.requests = 0
        self.store.close()


def _result(r):
    """Canonical comparable form of what an operation returned."""
    if r is None or isinstance(r, (bytes, str, int, bool)):
        return r
    if hasattr(r, "old_revno") or hasattr(r, "new_revno"):
        out = []
        for a in ("old_revno", "old_revid", "new_revno", "new_revid"):
            out.append((a, getattr(r, a, "<absent>")))
        tc = getattr(r, "tag_conflicts", None)
        out.append(("tag_conflicts", sorted(tc) if tc else []))
        tu = getattr(r, "tag_updates", None)
        out.append(("tag_updates", sorted(tu.items()) if tu else []))
        return tuple(out)
    if hasattr(r, "total_fetched"):
        return ("FetchResult",)
    if isinstance(r, (tuple, list)):
        return tuple(_result(i) for i in r)
    return repr(type(r).__name__)


_CURRENT = []          # the side whose operation is running (for _heal)


def _heal():
    """A read that fails half-way leaves its request open on the client medium and every later call
    would only report TooManyConcurrentRequests; reads are compared one by one, so the connection is
    put back into the idle state after each failed read (as a client that reconnects would)."""
    from . import _loopback_l as lb
    for side in _CURRENT:
        for m in lb.MEDIA.get(side.key, []) if side.key else []:
            m.disconnect()
            m._current_request = None


def _try(fn):
    try:
        return fn()
    except Exception as e:  # noqa  compared by class
        _heal()
        return ("EXC", type(e).__name__)


def _observe(side):
    """Every read the statement lists, through the subject's own objects."""
    from mc import world as mw
    b = side.subject()
    out = []
    with b.lock_read():
        repo = b.repository
        tip = b.last_revision()
        out.append(("info", _try(b.last_revision_info)))
        out.append(("revno", _try(b.revno)))
        out.append(("tags", _try(lambda: sorted(b.tags.get_tag_dict().items()))))
        out.append(("rev_tags", _try(lambda: sorted((k, sorted(v)) for k, v in b.tags.get_reverse_tag_dict().items()))))
        out.append(("opt", _try(lambda: b.get_config_stack().get("verif.key"))))
        out.append(("nick", _try(lambda: b.nick)))
        out.append(("parent", _try(b.get_parent)))
        out.append(("stacked", _try(b.get_stacked_on_url)))
        out.append(("pmap", _try(lambda: sorted(repo.get_parent_map(KEYS).items()))))
        out.append(("has", _try(lambda: [repo.has_revision(k) for k in KEYS])))
        out.append(("all", _try(lambda: sorted(repo.all_revision_ids()))))
        # the versioned-file level (served by the VFS-backed real repository behind a RemoteRepository)
        out.append(("vf-revisions", _try(lambda: sorted(repo.revisions.keys()))))
        out.append(("vf-revisions-pmap", _try(lambda: sorted(
            repo.revisions.get_parent_map([(k,) for k in KEYS]).items()))))
        out.append(("vf-inventories", _try(lambda: sorted(repo.inventories.keys()))))
        out.append(("vf-texts", _try(lambda: sorted(repo.texts.keys()))))
        out.append(("tree", _try(lambda: mw.dump_tree(repo.revision_tree(tip)))))
        out.append(("tree-r1", _try(lambda: mw.dump_tree(repo.revision_tree(b"r1")))))

        def rev():
            r = repo.get_revision(tip)
            return (r.revision_id, tuple(r.parent_ids), r.message, r.committer, r.timestamp, r.timezone,
                    sorted(r.properties.items()))
        out.append(("rev", _try(rev)))
        out.append(("rev-ghost", _try(lambda: repo.get_revision(b"ghost").revision_id)))
        out.append(("revno-of-tip", _try(lambda: b.revision_id_to_revno(tip))))
        out.append(("revno-of-d2", _try(lambda: b.revision_id_to_revno(b"d2"))))
        out.append(("dotted", _try(lambda: b.revision_id_to_dotted_revno(tip))))
        out.append(("revid-1", _try(lambda: b.get_rev_id(1))))
        out.append(("revid-9", _try(lambda: b.get_rev_id(9))))
        out.append(("merge-sorted", _try(lambda: [(r, d, n, e) for r, d, n, e in b.iter_merge_sorted_revisions()])))
        out.append(("graph-heads", _try(lambda: sorted(repo.get_graph().heads([tip, b"r1", b"d2"])))))
        out.append(("locked", _try(b.is_locked)))
    out.append(("phys", _try(b.get_physical_lock_status)))
    return tuple(out)


def _read_revisions(side):
    """Per-revision reads, one call per revision: revision tree, the single inventory, the revision
    record and every file text of that revision; then the same in bulk."""
    from mc import world as mw
    b = side.subject()
    out = []
    with b.lock_read():
        repo = b.repository
        revs = sorted(repo.all_revision_ids())
        out.append(("all", tuple(revs)))

        def inv_dump(inv):
            return (inv.revision_id, tuple((p, ie.file_id, ie.revision, ie.kind) for p, ie in inv.iter_entries()))

        for r in revs:
            out.append(("tree:%s" % r.decode(), _try(lambda: mw.dump_tree(repo.revision_tree(r), with_revision=True))))
            out.append(("inventory:%s" % r.decode(), _try(lambda: [inv_dump(i) for i in repo.iter_inventories([r])])))

            def rev():
                x = repo.get_revision(r)
                return (x.revision_id, tuple(x.parent_ids), x.message, x.committer, x.timestamp, x.timezone,
                        sorted(x.properties.items()))
            out.append(("revision:%s" % r.decode(), _try(rev)))

            def texts():
                t = repo.revision_tree(r)
                want = [(ie.file_id, ie.revision, p) for p, ie in t.iter_entries_by_dir() if ie.kind == "file"]
                return sorted((p, b"".join(chunks)) for p, chunks in repo.iter_files_bytes(want))
            out.append(("texts:%s" % r.decode(), _try(texts)))
        out.append(("inventories-bulk", _try(lambda: [inv_dump(i) for i in repo.iter_inventories(revs)])))
        out.append(("trees-bulk", _try(lambda: [mw.dump_tree(t, with_revision=True)
                                                for t in repo.revision_trees(revs)])))
        out.append(("revisions-bulk", _try(lambda: [x.revision_id for x in repo.get_revisions(revs)])))
    return tuple(out)


def apply_op(side, op):
    """Run one operation on one side; returns the canonical result or ("EXC", class)."""
    from breezy.branch import Branch
    from mc import world as mw
    i = side.step
    side.step += 1

    def go():
        b = side.subject()
        if op == "commit":
            return mw.commit_spec(b, b"c%d" % i, [b.last_revision()], _spec(20 + i), timestamp=2000.0 + i)
        if op == "commit-co":
            from mc import boot
            d = boot.scratch("c32co")
            side.trees.append(d)
            wt = b.create_checkout(d, lightweight=True)
            with open(os.path.join(d, "a"), "wb") as f:
                f.write(b"checkout content %d\n" % i)
            with open(os.path.join(d, "new%d" % i), "wb") as f:
                f.write(b"new\n")
            wt.add(["new%d" % i], ids=[b"new-id-%d" % i])
            return wt.commit("co commit %d" % i, rev_id=b"c%d" % i, timestamp=2000.0 + i, timezone=0,
                             committer="Committer <c@example.com>")
        if op == "pull-src":
            return b.pull(side.local("src"))
        if op == "pull-div":
            return b.pull(side.local("div"))
        if op == "pull-div-ow":
            return b.pull(side.local("div"), overwrite=True)
        if op == "push-src":
            return side.local("src").push(b)
        if op == "push-div-ow":
            return side.local("div").push(b, overwrite=True)
        if op == "fetch-r3":
            return b.repository.fetch(side.local("src").repository, revision_id=b"r3")
        if op == "set-tag":
            return b.tags.set_tag("t", b.last_revision())
        if op == "del-tag":
            return b.tags.delete_tag("t")
        if op == "set-opt":
            return b.get_config_stack().set("verif.key", "value %d" % i)
        if op == "set-tip":
            with b.lock_write():
                return b.set_last_revision_info(1, b"r1")
        if op == "lock":
            b.lock_write()
            side.depth += 1
            return None
        if op == "unlock":
            side.depth -= 1
            return b.unlock()
        if op == "reopen":
            side.b = None
            side._local = {}
            return type(side.subject()).__name__ != ""
        if op == "obs":
            return _observe(side)
        if op == "revs":
            return _read_revisions(side)
        if op == "oth-pull":
            return Branch.open(side.store.url + "oth").pull(b)
        raise ValueError(op)

    _CURRENT[:] = [side]
    try:
        return side.canon(_result(go()))
    except HarnessError:
        raise
    except Exception as e:  # noqa  compared by class
        return ("EXC", type(e).__name__)
    finally:
        _CURRENT[:] = []


def dump_store(side):
    """Canonical logical content of the store, read back locally with fresh objects."""
    import configobj
    from breezy.branch import Branch
    from mc import world as mw
    out = {}
    for name in BRANCHES:
        b = Branch.open(side.store.url + name)
        with b.lock_read():
            repo = b.repository
            revs = sorted(repo.all_revision_ids())
            try:
                conf = b.control_transport.get_bytes("branch.conf")
            except Exception:  # noqa  old branch formats have no branch.conf until something is set
                conf = b""
            try:
                parsed = configobj.ConfigObj(conf.decode("utf-8").splitlines())
                conf_c = sorted((k, repr(v)) for k, v in parsed.items())
            except Exception as e:  # noqa
                conf_c = ("unparsable", type(e).__name__, conf)
            out[name] = {
                "tip": b.last_revision_info(),
                "tags": sorted(b.tags.get_tag_dict().items()) if b.supports_tags() else "unsupported",
                "conf": side.canon(conf_c),
                "revs": [(r, mw.testament(repo, r)) for r in revs],
                "branch_locked": b.get_physical_lock_status(),
                "repo_locked": repo.get_physical_lock_status(),
            }
    return out


def enabled(op, depth):
    if op == "unlock":
        return depth > 0
    if op in ("reopen", "oth-pull", "commit-co"):
        # reopening drops the object that holds the lock; the other two open the subject's
        # repository a second time, which blocks on the held physical lock by design
        return depth == 0
    return True


def sequences(alphabet, maxlen, minlen=1):
    """All op sequences the lock-depth model enables, shortest first."""
    out = []

    def rec(prefix, depth):
        if len(prefix) >= minlen:
            out.append(tuple(prefix))
        if len(prefix) == maxlen:
            return
        for op in alphabet:
            if not enabled(op, depth):
                continue
            d = depth + (1 if op == "lock" else -1 if op == "unlock" else 0)
            rec(prefix + [op], d)
    rec([], 0)
    out.sort(key=len)
    return [s for s in out if s]


def execute(hist, seq, seqno=0, sides=SIDES):
    """Run seq on the three sides; returns (per-side step results, per-side dumps, request counts)."""
    from breezy import lockdir
    results = {}
    dumps = {}
    reqs = {}
    old = lockdir._DEFAULT_TIMEOUT_SECONDS
    lockdir._DEFAULT_TIMEOUT_SECONDS = 0
    try:
        for name in sides:
            side = Side(name, hist, seqno)
            try:
                results[name] = [apply_op(side, op) for op in seq]
                dumps[name] = dump_store(side)
            finally:
                side.close()
                reqs[name] = side.requests
    finally:
        lockdir._DEFAULT_TIMEOUT_SECONDS = old
    return results, dumps, reqs


def compare(hist, seq, results, dumps, acc, best):
    """Report, per remote side, only the EARLIEST discrepancy of the sequence (a wrong store or
    return value makes everything after it differ as a mere consequence)."""
    ok = True
    for name in SIDES[1:]:
        ret = None          # (0-based step, [(signature, detail)]) of the first differing step
        fc = _FMTCLASS.get(hist, "")
        for k, (a, b) in enumerate(zip(results["local"], results[name])):
            if a != b:
                op = seq[k]
                sigs = []
                base = {"history": hist, "sequence": list(seq[:k + 1]), "step": k, "side": name}
                if op in ("obs", "revs") and not _is_exc(a) and not _is_exc(b):
                    da = dict(a)
                    db = dict(b)
                    order = [x for x, _v in a if da.get(x) != db.get(x)]
                    rest = []
                    seen_f = set()
                    for x in order:
                        # the remote read raises where the local one answers (or raises something else): one signature per
                        # (abstract read, exception class), independent of what happened before
                        if _is_exc(db.get(x)) and (not _is_exc(da[x]) or da[x] != db[x]):
                            f = x.split(":")[0]
                            if (f, db[x][1]) not in seen_f:
                                seen_f.add((f, db[x][1]))
                                sigs.append(("%s:read:%s:raises-%s:%s%s" % (op, f, db[x][1], name, fc),
                                             dict(base, differs={"read": x, "local": da[x], name: db[x]})))
                        else:
                            rest.append(x)
                    if rest:
                        first = sorted(rest)[0]
                        sigs.append(("%s:read:%s-differs:%s:%s%s" % (op, first.split(":")[0], _context(seq, k), name, fc),
                                     dict(base, differs={"local": da[first], name: db.get(first),
                                                         "all_differing_reads": sorted(rest)})))
                else:
                    what = "exception" if (_is_exc(a) or _is_exc(b)) else "return"
                    sigs.append(("%s:%s-differs:%s:%s%s" % (op, what, _context(seq, k), name, fc),
                                 dict(base, differs={"local": a, name: b})))
                ret = (k, sigs)
                break
        sto = None          # (number of steps after which the stores first differ, signature, detail)
        if dumps["local"] != dumps[name]:
            # locate the first step after which the stores differ (prefixes are re-executed)
            k = len(seq)
            dl, dn = dumps["local"], dumps[name]
            for j in range(1, len(seq)):
                _r, dj, _q = execute(hist, seq[:j], sides=("local", name))
                if dj["local"] != dj[name]:
                    k, dl, dn = j, dj["local"], dj[name]
                    break
            where = []
            for br in BRANCHES:
                for field in dl[br]:
                    if dl[br][field] != dn[br][field]:
                        where.append((br, field))
            br, field = where[0]
            sto = (k, "%s:store-%s-differs:%s:%s%s" % (seq[k - 1], field, _context(seq, k - 1), name, fc),
                   {"history": hist, "sequence": list(seq[:k]), "side": name, "branch": br, "field": field,
                    "local": dl[br][field], name: dn[br][field], "all_differing": where})
        if ret is None and sto is None:
            continue
        ok = False
        if sto is not None and (ret is None or sto[0] <= ret[0]):
            # the stores already differed before the step whose return value differs
            _note(best, acc, sto[1], tuple(sto[2]["sequence"]), sto[2])
        else:
            for sig, det in ret[1]:
                _note(best, acc, sig, tuple(det["sequence"]), det)
            if sto is not None and sto[0] == ret[0] + 1:
                _note(best, acc, sto[1], tuple(sto[2]["sequence"]), sto[2])
    return ok


def _context(seq, k):
    """Abstract situation of step k: the last state-changing operation before it and the lock state."""
    prev = [o for o in seq[:k] if o not in ("obs", "lock", "unlock", "reopen")]
    depth = sum(1 if o == "lock" else -1 if o == "unlock" else 0 for o in seq[:k])
    return "after-%s:%s" % (prev[-1] if prev else "nothing", "write-locked" if depth > 0 else "unlocked")


def _is_exc(x):
    return isinstance(x, tuple) and x[:1] == ("EXC",)


def _note(best, acc, sig, seq, detail):
    acc.count("viol:" + sig)
    key = (len(seq), seq)
    if sig not in best or key < best[sig][0]:
        best[sig] = (key, detail)


def _work(chunk):
    import hashlib
    acc = par.Acc()
    best = {}
    states = set()
    for idx, (hist, seq) in enumerate(chunk):
        results, dumps, reqs = execute(hist, seq)
        acc.n += 1
        acc.count("transitions", len(seq) * len(SIDES))
        acc.count("requests", reqs["v3"] + reqs["v2"])
        acc.count("executions", len(SIDES))
        compare(hist, seq, results, dumps, acc, best)
        states.add(hashlib.sha1(repr(sorted(dumps["local"].items())).encode()).hexdigest())
        tgt0 = template_dump(hist)
        if dumps["local"] != tgt0:
            acc.nt((hist, seq))
        for r in results["local"]:
            acc.outcomes.add(repr(r)[:80] if not (isinstance(r, tuple) and len(r) > 6) else "obs")
        if idx < 2:
            # determinism audit: the same sequence again must give the same observations
            r2, d2, _ = execute(hist, seq)
            if r2 != results or d2 != dumps:
                raise HarnessError("C32: non-deterministic execution of %r" % (seq,))
        if len(seq) >= 2:
            acc.sample({"history": hist, "sequence": list(seq),
                        "local_results": [x if not (isinstance(x, tuple) and len(x) > 6) else "<reads>"
                                          for x in results["local"]],
                        "requests_v3": reqs["v3"], "requests_v2": reqs["v2"]})
    for sig, (key, d) in best.items():
        acc.violations.append((sig, d))
    acc.states = states
    return acc


_TD = {}


def template_dump(hist):
    if hist not in _TD:
        s = Side("local", hist, 0)
        try:
            _TD[hist] = dump_store(s)
        finally:
            s.close()
    return _TD[hist]


def locked_sequences(n):
    """[lock] followed by every word of length n over LOCKED the lock-depth model enables."""
    return [s for s in sequences(("lock",) + LOCKED, n + 1, n + 1)
            if s[0] == "lock" and "lock" not in s[1:]]


DEEP = ("commit", "pull-src", "obs")
FMT_OPS = ("commit", "pull-src", "push-src", "obs", "revs")      # run on every other repository format


def deep_sequences(n):
    return [("lock",) + w for w in itertools.product(DEEP, repeat=n)]


def plan(ctx):
    """quick: FULL <= 2, QCORE <= 3, lock_write + LOCKED^3, lock_write + DEEP^4 on the linear history;
    thorough: FULL <= 3, CORE <= 4, lock_write + LOCKED^<=4 on the linear history, FULL <= 2 + lock_write +
    LOCKED^3 on the merge history."""
    items = []
    seen = set()

    def add(hist, seqs):
        for s in seqs:
            if (hist, s) not in seen:
                seen.add((hist, s))
                items.append((hist, s))

    if not ctx.thorough:
        table = [("linear", "FULL <= 2", sequences(FULL, 2)),
                 ("linear", "QCORE <= 3", sequences(QCORE, 3)),
                 ("linear", "lock + LOCKED^3", locked_sequences(3)),
                 ("linear", "lock + {commit,pull-src,obs}^4", deep_sequences(4))]
    else:
        table = [("linear", "FULL <= 3", sequences(FULL, 3)),
                 ("linear", "CORE <= 4", sequences(CORE, 4)),
                 ("linear", "lock + LOCKED^3", locked_sequences(3)),
                 ("linear", "lock + LOCKED^4", locked_sequences(4)),
                 ("linear", "lock + {commit,pull-src,obs}^5", deep_sequences(5)),
                 ("merge", "FULL <= 2", sequences(FULL, 2)),
                 ("merge", "lock + LOCKED^3", locked_sequences(3))]
    fmts = extra_formats()
    for name, _flags in fmts:
        table.append(("linear@" + name, "FMT_OPS <= 1 and (commit|pull-src|push-src, obs|revs)",
                      sequences(FMT_OPS, 1) + [(m, r) for m in ("commit", "pull-src", "push-src")
                                               for r in ("obs", "revs")]))
    for hist, _n, seqs in table:
        add(hist, seqs)
    items.sort(key=lambda x: (len(x[1]), x[0], x[1]))
    return items, {"enumerated": [{"history": h, "sequences": n, "count": len(q)} for h, n, q in table],
                   "alphabets": {"FULL": list(FULL), "CORE": list(CORE), "QCORE": list(QCORE), "LOCKED": list(LOCKED), "DEEP": list(DEEP), "FMT_OPS": list(FMT_OPS)},
                   "repository_formats": [["2a", [True, True, True]]] + [[n, list(f)] for n, f in fmts],
                   "format_flags": "(rich_root, tree_reference, chk)",
                   "sides": list(SIDES)}


def _templates_needed(ctx):
    return sorted({h for h, _s in plan(ctx)[0]})


def run(ctx):
    for h in _templates_needed(ctx):
        template(h)               # built once in the parent, inherited by the forked workers
        template_dump(h)
    items, bounds = plan(ctx)
    accs = par.pmap(_work, items, seed=ctx.seed, chunks_per_job=8)
    acc = par.merge(accs)
    states = set()
    for a in accs:
        states |= getattr(a, "states", set())
    best = {}
    for sig, d in acc.violations:
        key = (len(d["sequence"]), d["sequence"])
        if sig not in best or key < best[sig][0]:
            best[sig] = (key, d)
    for sig in sorted(best):
        d = dict(best[sig][1])
        d["occurrences"] = acc.counters.get("viol:" + sig, 0)
        ctx.violation(sig, d)
    if acc.counters.get("requests", 0) < acc.n:
        raise HarnessError("C32: the smart server was hardly used (%d requests)" % acc.counters.get("requests", 0))
    ctx.assumptions.append("well-formed API usage only: reads under lock_read, unlock only when locked, no second "
                           "opener while the subject holds its write lock (the lock-depth model decides which "
                           "operations are enabled)")
    ctx.assumptions.append("FetchResult counters, pack/index file names and lock nonces are physical detail and are "
                           "not compared; URLs are compared after stripping the store/server prefix")
    return {
        "evaluations": acc.n,
        "sequences": acc.n,
        "states": len(states),
        "transitions": acc.counters.get("transitions", 0),
        "traces_validated_against_impl": acc.counters.get("executions", 0),
        "smart_requests_served": acc.counters.get("requests", 0),
        "distinct_nontrivial": len(acc.nontrivial),
        "rule": "a case = (template history, operation sequence), run on 3 sides; non-trivial = the sequence "
                "changed the logical content of the store (some branch/repository/lock field differs from the template)",
        "distinct_step_outcomes": len(acc.outcomes),
        "cpu_s": _cpu_seconds(),
        "bounds": bounds,
        "samples": acc.samples[:4],
        "exhaustive": True,
    }


def _cpu_seconds():
    import resource
    t = 0.0
    for who in (resource.RUSAGE_SELF, resource.RUSAGE_CHILDREN):
        r = resource.getrusage(who)
        t += r.ru_utime + r.ru_stime
    return round(t, 1)


def replay(ctx, data):
    d = data["first"]
    acc = par.Acc()
    best = {}
    seq = tuple(d["sequence"])
    results, dumps, reqs = execute(d["history"], seq)
    ok = compare(d["history"], seq, results, dumps, acc, best)
    for sig, (k, det) in best.items():
        print("  reproduced %s: %r" % (sig, det.get("differs") or (det.get("local"), det.get(det.get("side")))))
    return ok
