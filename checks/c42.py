"""C42 - Exports contain exactly the exported tree.

Input enumeration: every parent-closed tree made of <= k (3 quick / 4 thorough) entries of an
18-entry namespace with unusual names (empty and binary contents, space, non-ASCII, leading
dash, executable, nested and empty directories, a sibling whose name has the sub-directory
as a prefix, symlinks at top level and inside the sub-directory, `.bzrignore`, a file
`link.lnk` next to the symlink `link`, and `.bzr*` names INSIDE the selectable sub-directories:
`d/.bzrignore`, `d/e/.bzr-x/`, `d/e/.bzr-x/f` - ordinary content there) plus the full tree, committed as the second of two
real revisions (so that last-changed revisions differ per file) of a dirstate tree / 2a
repository on /dev/shm; x format {dir, tar, tgz, tbz2, txz, tlzma, zip} x root {None (derived from the
destination name), "r", "", "r/s"} x sub-directory {None, "", "d", "d/", "d/e"} (those
present in the tree) x per_file_timestamps (quick: only for dir, tar, zip).  A second sub-run does
the same for git trees (10-entry namespace with `d/.gitignore`, `d/e/.gitkeep`, `d/.git-x/f`; <= 2 / 3
files chosen; signatures prefixed `git/`).  breezy.export.export() is run on the revision
tree; archives are read back with the stdlib tarfile/zipfile/gzip/bz2/lzma modules,
directory exports from disk.  Oracle (computed from the declarative tree, not from breezy):
the members are exactly the entries of the (sub-)tree, each once, under the requested
root, with the same kind, bytes, link target and executable bit.
"""
import bz2
import gzip
import io
import itertools
import lzma
import os
import shutil
import stat
import tarfile
import zipfile

from mc import boot, par
from mc import world as mw
from mc.evidence import HarnessError

ID = "C42"
LEVEL = "exploration"
TECHNIQUE = "exhaustive small-scope enumeration of trees x export options on the real exporters, archives read back with the stdlib"

F, D, L = mw.F, mw.D, mw.L

# token -> (path, entry); order = simplest first
NAMESPACE = [
    ("a", F(b"a-id", b"")),
    ("x.sh", F(b"xsh-id", b"#!/bin/sh\necho hi\n", True)),
    ("d", D(b"d-id")),
    ("d/x", F(b"dx-id", b"d/x contents\n")),
    ("dx", F(b"dxfile-id", b"sibling with the subdir name as prefix\n")),
    ("link", L(b"link-id", "a")),
    ("sp ace", F(b"space-id", b"binary\x00\r\n\xff\xfe tail")),
    ("-dash", F(b"dash-id", b"dash\n")),
    ("ü", F(b"uuml-id", "ü content\n".encode("utf-8"))),
    ("d/e", D(b"e-id")),
    ("d/e/y", F(b"y-id", b"deep exec\n", True)),
    ("d/l", L(b"dl-id", "../a")),
    ("empty", D(b"empty-id")),
    (".bzrignore", F(b"ign-id", b"*.o\n")),
    ("link.lnk", F(b"lnk-id", b"not a link\n")),
    # names that would be special to the VCS at the top of the tree, inside the selectable
    # sub-directories: ordinary content there
    ("d/.bzrignore", F(b"dign-id", b"*.pyc\n")),
    ("d/e/.bzr-x", D(b"ebzrx-id")),
    ("d/e/.bzr-x/f", F(b"ebzrxf-id", b"below a .bzr* directory\n")),
]
# git trees: no empty directories, no file ids; the same idea with .git* names
GIT_NAMESPACE = [
    ("a", F(None, b"")),
    ("x.sh", F(None, b"#!/bin/sh\necho hi\n", True)),
    ("d", D(None)),
    ("d/x", F(None, b"d/x contents\n")),
    ("d/.gitignore", F(None, b"*.o\n")),
    ("d/e", D(None)),
    ("d/e/.gitkeep", F(None, b"")),
    ("d/.git-x", D(None)),
    ("d/.git-x/f", F(None, b"below a .git* directory\n")),
    ("link", L(None, "a")),
]
PATHS = {"bzr": [p for p, _ in NAMESPACE], "git": [p for p, _ in GIT_NAMESPACE]}
ENTRY = {"bzr": dict(NAMESPACE), "git": dict(GIT_NAMESPACE)}

FORMATS_Q = ("dir", "tar", "tgz", "tbz2", "txz", "zip")
FORMATS_T = FORMATS_Q + ("tlzma",)
EXT = {"tar": ".tar", "tgz": ".tar.gz", "tbz2": ".tar.bz2", "txz": ".tar.xz", "tlzma": ".tar.lzma", "zip": ".zip",
       "dir": ""}
SUBDIRS = (None, "", "d", "d/", "d/e")


def close_under_parents(paths, vcs="bzr"):
    out = set()
    for p in paths:
        parts = p.split("/")
        for i in range(1, len(parts) + 1):
            out.add("/".join(parts[:i]))
    return tuple(sorted(out, key=PATHS[vcs].index))


def trees(k, vcs="bzr"):
    seen = set()
    out = []
    files = [p for p in PATHS[vcs] if vcs == "bzr" or ENTRY[vcs][p].kind != "directory"]
    for n in range(0, k + 1):
        for comb in itertools.combinations(files, n):
            t = close_under_parents(comb, vcs)
            if t not in seen:
                seen.add(t)
                out.append(t)
    full = tuple(PATHS[vcs])
    if full not in seen:
        out.append(full)
    return out


def expected_listing(tree_paths, subdir, vcs="bzr"):
    """{relative path: (kind, bytes|target, exec)} of the sub-tree, from the declaration."""
    sd = (subdir or "").rstrip("/")
    out = {}
    for p in tree_paths:
        if sd:
            if not p.startswith(sd + "/"):
                continue
            rel = p[len(sd) + 1:]
        else:
            rel = p
        e = ENTRY[vcs][p]
        if e.kind == "file":
            out[rel] = ("file", e.content, bool(e.exec))
        elif e.kind == "directory":
            out[rel] = ("directory", None, False)
        else:
            out[rel] = ("symlink", e.content, False)
    return out


# ---- reading archives back ----------------------------------------------------

def read_tar(data, fmt):
    if fmt == "tgz":
        data = gzip.decompress(data)
    elif fmt == "tbz2":
        data = bz2.decompress(data)
    elif fmt == "txz":
        data = lzma.decompress(data, format=lzma.FORMAT_XZ)
    elif fmt == "tlzma":
        data = lzma.decompress(data, format=lzma.FORMAT_ALONE)
    members = []
    with tarfile.open(fileobj=io.BytesIO(data), mode="r:") as tf:
        for m in tf.getmembers():
            name = m.name
            if m.isdir():
                members.append((name.rstrip("/"), ("directory", None, False)))
            elif m.issym():
                members.append((name, ("symlink", m.linkname, False)))
            elif m.isreg():
                members.append((name, ("file", tf.extractfile(m).read(), bool(m.mode & 0o100))))
            else:
                members.append((name, ("other:%r" % m.type, None, False)))
    return members


def read_zip(data):
    members = []
    with zipfile.ZipFile(io.BytesIO(data)) as zf:
        bad = zf.testzip()
        if bad is not None:
            members.append((bad, ("corrupt", None, False)))
        for zi in zf.infolist():
            mode = zi.external_attr >> 16
            name = zi.filename
            if name.endswith("/"):
                members.append((name.rstrip("/"), ("directory", None, False)))
            elif stat.S_ISLNK(mode):
                members.append((name, ("symlink", zf.read(zi).decode("utf-8"), False)))
            else:
                members.append((name, ("file", zf.read(zi), bool(mode & 0o100))))
    return members


def read_dir(dest):
    from mc import wt
    snap = wt.dir_snapshot(dest, skip=())
    members = []
    for rel, v in snap.items():
        if v[0] == "dir":
            members.append((rel, ("directory", None, False)))
        elif v[0] == "link":
            members.append((rel, ("symlink", v[1], False)))
        else:
            members.append((rel, ("file", v[1], v[2])))
    return members


def under_root(members, root):
    """Strip the root prefix; returns (list of (rel, value), names outside the root)."""
    if not root:
        return members, []
    out, outside = [], []
    pre = root.rstrip("/") + "/"
    for name, v in members:
        if name.startswith(pre):
            out.append((name[len(pre):], v))
        elif name == root.rstrip("/") and v[0] == "directory":
            continue            # an entry for the root directory itself is fine
        else:
            outside.append(name)
    return out, outside


def compare(fmt, members, exp, tree_paths, subdir):
    """Yield (what, path) discrepancies."""
    seen = {}
    for rel, v in members:
        if rel in seen:
            if fmt == "zip" and rel.endswith(".lnk") and exp.get(rel[:-4], ("",))[0] == "symlink" and rel in exp:
                pass        # reported below as the stand-in collision
            else:
                yield ("duplicate-member", rel)
        seen[rel] = v
    special_ok = set()
    if not (subdir or "").rstrip("/"):
        # files special to the VCS (".bzr*" at the top of the tree) are documentedly skipped;
        # accept them present or absent
        special_ok = {p for p in exp if p.startswith(".bzr")}
    exp = dict(exp)
    if fmt == "zip":
        # zip: a symlink is stored either as a symlink member or (breezy's documented
        # representation) as a regular member NAME.lnk holding the target
        for rel, v in list(exp.items()):
            if v[0] == "symlink" and rel not in seen and rel + ".lnk" in seen and rel + ".lnk" not in exp:
                got = seen.pop(rel + ".lnk")
                del exp[rel]
                if got[0] != "file" or got[1] != v[1].encode("utf-8"):
                    yield ("symlink-target-differs", rel)
            elif v[0] == "symlink" and rel not in seen and rel + ".lnk" in exp:
                # both the link's stand-in and a real file want the name NAME.lnk
                del exp[rel]
                yield ("symlink-stand-in-collides-with-file", rel)
    for rel in sorted(exp):
        if rel not in seen:
            if rel not in special_ok:
                yield ("missing-%s" % exp[rel][0], rel)
            continue
        e, g = exp[rel], seen[rel]
        if e[0] != g[0]:
            yield ("kind-%s-exported-as-%s" % (e[0], g[0]), rel)
        elif e[0] == "file":
            if e[1] != g[1]:
                yield ("content-differs", rel)
            if e[2] and not g[2]:
                yield ("exec-bit-lost", rel)
            if g[2] and not e[2]:
                yield ("exec-bit-gained", rel)
        elif e[0] == "symlink" and e[1] != g[1]:
            yield ("symlink-target-differs", rel)
    for rel in sorted(seen):
        if rel not in exp:
            yield ("extra-%s" % seen[rel][0], rel)


_WK = {}


def _world():
    if not _WK:
        _WK["scratch"] = boot.scratch("c42")
    return _WK


def _write(base, p, e):
    full = os.path.join(base, p)
    if e.kind == "directory":
        os.makedirs(full, exist_ok=True)
    elif e.kind == "symlink":
        if os.path.lexists(full):
            os.unlink(full)
        os.symlink(e.content, full)
    else:
        with open(full, "wb") as f:
            f.write(e.content)
        os.chmod(full, 0o755 if e.exec else 0o644)


def build_tree(tree_paths, vcs="bzr"):
    """Two real commits in a fresh dirstate tree / 2a repository (or a git tree / repository)
    on /dev/shm (MemoryTree, which mc.world uses, cannot hold non-ASCII names); returns
    (RevisionTree of the second, dir)."""
    from mc import wt
    tree = wt.make_tree(vcs)
    base = tree.basedir
    entry = ENTRY[vcs]
    spec2 = {p: entry[p] for p in tree_paths}
    # first revision: every second entry already there (some files with other content and exec
    # bit), so that the last-changed revision differs from entry to entry
    spec1 = {}
    for i, p in enumerate(tree_paths):
        e = entry[p]
        if "/" in p and p.rsplit("/", 1)[0] not in spec1:
            continue
        if i % 2 == 0 or (vcs == "git" and e.kind == "directory"):
            spec1[p] = e
        elif e.kind == "file" and i % 3 == 0:
            spec1[p] = F(e.fid, b"old " + e.content, not e.exec)
    kw = dict(timezone=0, committer="C <c@example.com>", allow_pointless=True)
    for p in spec1:
        _write(base, p, spec1[p])
    if vcs == "git":
        # git versions no empty directories: a placeholder keeps the first commit non-empty
        with open(os.path.join(base, "first-only"), "wb") as f:
            f.write(b"removed in the second commit\n")
        tree.smart_add([base])
        tree.commit("one", timestamp=1_100_000_000.0, **kw)
        tree.remove(["first-only"], keep_files=False)
        for p in spec2:
            _write(base, p, spec2[p])
        tree.smart_add([base])
        r2 = tree.commit("two", timestamp=1_200_000_000.0, **kw)
    else:
        if spec1:
            tree.add(list(spec1), ids=[spec1[p].fid for p in spec1])
        tree.commit("one", rev_id=b"r1", timestamp=1_100_000_000.0, **kw)
        new = [p for p in spec2 if p not in spec1]
        for p in spec2:
            _write(base, p, spec2[p])
        if new:
            tree.add(new, ids=[spec2[p].fid for p in new])
        r2 = tree.commit("two", rev_id=b"r2", timestamp=1_200_000_000.0, **kw)
    rt = tree.branch.repository.revision_tree(r2)
    got = mw.dump_tree(rt, with_ids=False)
    want = mw.spec_dump(spec2, with_ids=False)
    if got != want:
        raise HarnessError("%s revision tree differs from the declaration: %r vs %r" % (vcs, got, want))
    return rt, base


def export_once(tree, fmt, root, subdir, pft, tag):
    from breezy.export import export
    w = _world()
    if fmt == "dir":
        dest = os.path.join(w["scratch"], "out")
        shutil.rmtree(dest, ignore_errors=True)
        try:
            export(tree, dest, "dir", root, subdir, per_file_timestamps=pft)
            return read_dir(dest)
        finally:
            shutil.rmtree(dest, ignore_errors=True)
    buf = io.BytesIO()
    dest = os.path.join(w["scratch"], "name-of-%s%s" % (tag, EXT[fmt]))
    export(tree, dest, fmt, root, subdir, per_file_timestamps=pft, fileobj=buf)
    data = buf.getvalue()
    if fmt == "zip":
        return read_zip(data)
    return read_tar(data, fmt)


def _where(e):
    import traceback
    tb = traceback.extract_tb(e.__traceback__)
    for fr in reversed(tb):
        if fr.filename.startswith(boot.REPO):
            return "%s:%s" % (os.path.basename(fr.filename), fr.name)
    return "?"


def configs(tree_paths, formats, roots, vcs="bzr", pft_formats=None):
    dirs = {p for p in tree_paths if ENTRY[vcs][p].kind == "directory"}
    for fmt in formats:
        for root in (roots if fmt != "dir" else (None,)):
            for subdir in SUBDIRS:
                if subdir and subdir.rstrip("/") not in dirs:
                    continue
                for pft in (False, True):
                    if pft and pft_formats is not None and fmt not in pft_formats:
                        continue
                    yield fmt, root, subdir, pft


def check_case(tree, tree_paths, fmt, root, subdir, pft, acc, audit=False, vcs="bzr"):
    acc.n += 1
    pre = "" if vcs == "bzr" else vcs + "/"
    exp = expected_listing(tree_paths, subdir, vcs)
    tag = "export"
    try:
        members = export_once(tree, fmt, root, subdir, pft, tag)
        if audit and members != export_once(tree, fmt, root, subdir, pft, tag):
            raise HarnessError("export not deterministic for %r" % ((tree_paths, fmt, root, subdir, pft),))
    except HarnessError:
        raise
    except Exception as e:  # noqa
        sig = "%s%s:%s:%s" % (pre, fmt, type(e).__name__, _where(e))
        acc.keep(sig, _detail(tree_paths, fmt, root, subdir, pft, None, str(e)[:200], vcs))
        return
    eff_root = ("name-of-" + tag) if root is None else root
    if fmt == "dir":
        eff_root = ""
    rel, outside = under_root(members, eff_root)
    if exp:
        acc.nt((vcs, tree_paths, fmt, root, subdir, pft))
    acc.outcomes.add((vcs, fmt, len(rel)))
    if outside:
        acc.keep("%s%s:member-outside-requested-root" % (pre, fmt),
                 _detail(tree_paths, fmt, root, subdir, pft, outside[0], None, vcs))
    for what, path in compare(fmt, rel, exp, tree_paths, subdir):
        sig = "%s%s:%s" % (pre, fmt, what)
        acc.keep(sig, _detail(tree_paths, fmt, root, subdir, pft, path, None, vcs))


class Acc(par.Acc):
    """keeps the smallest failing input per signature (par.Acc keeps only the first 200 violations)"""

    def __init__(self):
        super().__init__()
        self.best = {}

    @staticmethod
    def key(d):
        return (d["size"], d["tree"], str(d["root"]), str(d["subdir"]), d["per_file_timestamps"])

    def keep(self, sig, d):
        self.count("violations_raw")
        k = self.key(d)
        if sig not in self.best or k < self.best[sig][0]:
            self.best[sig] = (k, d)

    def merge(self, other):
        super().merge(other)
        for sig, (k, d) in getattr(other, "best", {}).items():
            if sig not in self.best or k < self.best[sig][0]:
                self.best[sig] = (k, d)
        return self


def _detail(tree_paths, fmt, root, subdir, pft, path, msg, vcs="bzr"):
    d = {"vcs": vcs, "tree": list(tree_paths), "format": fmt, "root": root, "subdir": subdir,
         "per_file_timestamps": pft, "size": len(tree_paths)}
    if path is not None:
        d["path"] = path
    if msg:
        d["error"] = msg
    return d


def _work(chunk):
    import warnings
    warnings.filterwarnings("ignore", "Duplicate name", UserWarning)
    acc = Acc()
    for idx, vcs, tree_paths, formats, roots, pft_formats in chunk:
        tree, base = build_tree(tree_paths, vcs)
        for fmt, root, subdir, pft in configs(tree_paths, formats, roots, vcs, pft_formats):
            check_case(tree, tree_paths, fmt, root, subdir, pft, acc, audit=(idx < 4), vcs=vcs)
        shutil.rmtree(base, ignore_errors=True)
        if idx < 3:
            acc.sample({"vcs": vcs, "tree": list(tree_paths), "formats": list(formats), "roots": list(roots)})
    return acc


def run(ctx):
    k = ctx.q(3, 4)
    formats = ctx.q(FORMATS_Q, FORMATS_T)
    roots = ctx.q((None, "r", ""), (None, "r", "", "r/s"))
    # quick: per_file_timestamps only with one representative of each exporter (the compressed tars
    # share tarball_generator with tar)
    pft_formats = ctx.q(("dir", "tar", "zip"), None)
    ts = trees(k)
    gts = trees(ctx.q(2, 3), "git")
    items = [(i, "bzr", t, formats, roots, pft_formats) for i, t in enumerate(ts)]
    items += [(i, "git", t, formats, roots, pft_formats) for i, t in enumerate(gts)]
    acc = Acc()
    for a in par.pmap(_work, items, seed=ctx.seed, chunks_per_job=6):
        acc.merge(a)
    for sig in sorted(acc.best):
        ctx.violation(sig, acc.best[sig][1])
    ctx.assumptions.append("zip: a symlink may be represented by a regular member NAME.lnk holding the target (breezy's "
                           "representation); top-level paths starting with .bzr may be present or absent (special to the VCS; "
                           "the same names inside a sub-directory are ordinary content); modification times are not part of the oracle")
    return {
        "evaluations": acc.n,
        "trees": len(ts),
        "git_trees": len(gts),
        "max_entries_chosen": k,
        "namespace": PATHS["bzr"],
        "git_namespace": PATHS["git"],
        "formats": list(formats),
        "roots": [repr(r) for r in roots],
        "subdirs": [repr(s) for s in SUBDIRS],
        "distinct_nontrivial": len(acc.nontrivial),
        "distinct_outcomes": len(acc.outcomes),
        "rule": "non-trivial = the exported (sub-)tree has at least one entry",
        "samples": acc.samples[:3],
        "exhaustive": True,
    }


def replay(ctx, data):
    d = data["first"]
    acc = Acc()
    vcs = d.get("vcs", "bzr")
    tree, base = build_tree(tuple(d["tree"]), vcs)
    try:
        check_case(tree, tuple(d["tree"]), d["format"], d["root"], d["subdir"], d["per_file_timestamps"], acc, vcs=vcs)
    finally:
        shutil.rmtree(base, ignore_errors=True)
    return data["signature"] not in acc.best
