"""Reachable working-tree states: reference model, real executor and explicit-state search.

Shared by C09 (which checks every transition) and by the tree-level checks that
need "all working-tree states reachable by <= k operations" as their input space.

API (everything is regenerated on the current breezy; nothing is cached on disk):

  explore(depth, kind, ns=NS1, seed=0, both_modes=True)  -> Result
        level-synchronous BFS over operation sequences on REAL working trees
        (kind: "bzr" = 2a dirstate tree, "git" = git index tree), events enabled
        by the reference model, dedup on the canonical model state.
        Result.states   {canonical key: history}   (history = tuple of ops)
        Result.acc      par.Acc with counters / violations (C09's oracle)
  sequences(depth, kind, ns=NS1, start=())  -> sorted list of histories, one per distinct reachable
        state (the shortest, lexicographically first history reaching it), [()] first.
  build(seq, kind, path=None)  -> (WorkingTree, Model): fresh tree on /dev/shm with the
        history replayed (real code), and the model state that goes with it.
  enabled(model) -> list of ops;  Model.apply(op) -> None;  run_op(tree, op) -> tree

An op is a tuple: ("write",p,c) ("chmod",p) ("mkdir",d) ("add",p) ("sadd",)
("rm",p,"keep"|"force"|"safe") ("unv",p) ("mv",p,q) ("move",p,d) ("commit",)
("revert",) ("revertp",p) ("flip",p); ("mv",p,q,"after"|"auto") / ("move",p,d,"after"|"auto") = path
moved on disk first, then recorded with after=True / auto-detected; and the pseudo op ("reopen",) = drop the object, WorkingTree.open.
"""
import os
import shutil

from mc import boot, par

COMMITTER = "Verif <verif@example.com>"


class NS:
    """A bounded namespace: allowed file paths, directory paths, contents."""

    def __init__(self, name, files, dirs, contents=(b"x\n", b"y\n"), flip=False):
        self.name = name
        self.flip = flip          # alphabet includes ("flip", p): file <-> empty directory on disk
        self.files = tuple(files)
        self.dirs = tuple(dirs)
        self.contents = tuple(contents)
        self.paths = self.dirs + self.files


NS1 = NS("a,b,d/,d/a", ("a", "b", "d/a"), ("d",))
NS2 = NS("a,b,d/,e/,d/a,e/a", ("a", "b", "d/a", "e/a"), ("d", "e"))
NS3 = NS("a,d/,d/a,d/e/,d/e/a", ("a", "d/a", "d/e/a"), ("d", "d/e"), contents=(b"x\n",))
NS1F = NS("a,b,d/,d/a+kindflip", ("a", "b", "d/a"), ("d",), flip=True)
NS4 = NS("a,d/,d/a,e/,e/d/,e/d/a", ("a", "d/a", "e/d/a"), ("d", "e", "e/d"), contents=(b"x\n",))
NAMESPACES = {n.name: n for n in (NS1, NS2, NS3, NS1F, NS4)}


def parent(p):
    return p.rsplit("/", 1)[0] if "/" in p else ""


def base(p):
    return p.rsplit("/", 1)[-1]


def ancestors(p):
    out = []
    while "/" in p:
        p = parent(p)
        out.append(p)
    return out


def inside(d, p):
    return p == d or p.startswith(d + "/")


def ignored_name(p):
    """Default user ignore rules that can match names the operations create (backups)."""
    return any(seg.endswith("~") for seg in p.split("/"))


class Model:
    """Abstract versioned file system.

    disk : {path: ("file", bytes, exec) | ("directory",)}
    ver  : {path: identity}   bzr: files and directories; git: files only
    basis: None (no commit yet) | {path: (identity, kind, bytes|None, exec)}
    """

    def __init__(self, git, ns):
        self.git = git
        self.ns = ns
        self.disk = {}
        self.ver = {}
        self.basis = None
        self.nid = 1
        self.nrev = 0
        self.adopt = None      # set by apply(): which part of the real state is adopted

    def copy(self):
        m = Model(self.git, self.ns)
        m.disk = dict(self.disk)
        m.ver = dict(self.ver)
        m.basis = None if self.basis is None else dict(self.basis)
        m.nid = self.nid
        m.nrev = self.nrev
        return m

    # ---- queries -------------------------------------------------------
    def isdir(self, p):
        return p == "" or self.disk.get(p, (None,))[0] == "directory"

    def isfile(self, p):
        return self.disk.get(p, (None,))[0] == "file"

    def versioned(self, p):
        if p == "":
            return True
        if p in self.ver:
            return True
        if self.git:
            return any(inside(p, q) for q in self.ver)
        return False

    def versioned_dirs_git(self, files):
        out = set()
        for q in files:
            while "/" in q:
                q = parent(q)
                out.add(q)
        return out

    def new_id(self):
        if self.git:
            return 0
        self.nid += 1
        return self.nid - 1

    def wt_entries(self):
        """{path: (identity, kind, content, exec)} of the versioned working state."""
        out = {}
        for p, i in self.ver.items():
            d = self.disk[p]
            if d[0] == "file":
                out[p] = (i, "file", d[1], d[2])
            else:
                out[p] = (i, "directory", None, False)
        return out

    def diff(self):
        """Changes basis -> working tree.

        bzr: by identity: list of (oldpath, newpath, changed_content, kinds, execs)
        git: by path: (set removed, set added, set modified)
        """
        wt = self.wt_entries()
        bs = self.basis or {}
        if self.git:
            removed = {p for p in bs if p not in wt}
            added = {p for p in wt if p not in bs}
            modified = {p for p in wt if p in bs and (wt[p][2] != bs[p][2] or wt[p][3] != bs[p][3])}
            return removed, added, modified
        by_old = {v[0]: (p, v) for p, v in bs.items()}
        by_new = {v[0]: (p, v) for p, v in wt.items()}
        old_ids = {p: v[0] for p, v in bs.items()}
        new_ids = {p: v[0] for p, v in wt.items()}
        out = []
        if self.basis is None:
            out.append((None, "", True, (None, "directory"), (None, False)))
        for i in sorted(set(by_old) | set(by_new)):
            o = by_old.get(i)
            n = by_new.get(i)
            if o and n:
                (op, ov), (np_, nv) = o, n
                cc = ov[1] != nv[1] or (ov[1] == "file" and ov[2] != nv[2])
                opar = old_ids.get(parent(op), 0)
                npar = new_ids.get(parent(np_), 0)
                moved = opar != npar or base(op) != base(np_)
                xc = ov[1] == "file" and nv[1] == "file" and ov[3] != nv[3]
                if cc or moved or xc:
                    out.append((op, np_, cc, (ov[1], nv[1]), (ov[3], nv[3])))
            elif o:
                op, ov = o
                out.append((op, None, True, (ov[1], None), (ov[3], None)))
            else:
                np_, nv = n
                out.append((None, np_, True, (None, nv[1]), (None, nv[3])))
        return sorted(out, key=repr)

    def has_changes(self):
        d = self.diff()
        if self.git:
            return bool(d[0] or d[1] or d[2])
        return bool(d)

    def key(self):
        """Canonical state: everything the property can observe (identities renamed by
        order of first appearance over sorted paths)."""
        ren = {}

        def r(i):
            if i not in ren:
                ren[i] = len(ren)
            return ren[i]
        ver = tuple((p, r(i)) for p, i in sorted(self.ver.items()))
        bs = None if self.basis is None else tuple(
            (p, r(v[0]), v[1], v[2], v[3]) for p, v in sorted(self.basis.items()))
        return (tuple(sorted(self.disk.items())), ver, bs)

    # ---- transitions ------------------------------------------------------
    def apply(self, op):
        """Apply op; afterwards self.adopt is None or a description of what part of the
        real state the model must adopt because the statement does not define it."""
        self.adopt = None
        k = op[0]
        if k == "write":
            _, p, c = op
            x = self.disk[p][2] if p in self.disk else False
            self.disk[p] = ("file", c, x)
        elif k == "chmod":
            d = self.disk[op[1]]
            self.disk[op[1]] = ("file", d[1], not d[2])
        elif k == "mkdir":
            self.disk[op[1]] = ("directory",)
            if not self.git:
                self.ver[op[1]] = self.new_id()
        elif k == "add":
            p = op[1]
            if self.git and self.isdir(p):
                return
            self.ver[p] = self.new_id()
        elif k == "sadd":
            for p in sorted(self.disk):
                if p in self.ver or ignored_name(p):
                    continue
                if self.git and self.isdir(p):
                    continue
                self.ver[p] = self.new_id()
        elif k in ("rm", "unv"):
            p = op[1]
            mode = op[2] if k == "rm" else "keep"
            for q in [q for q in self.ver if inside(p, q)]:
                del self.ver[q]
            if mode == "force":
                for q in [q for q in self.disk if inside(p, q)]:
                    del self.disk[q]
            elif mode == "safe":
                self.adopt = ("under", p)
        elif k in ("mv", "move"):
            p = op[1]
            q = op[2] if k == "mv" else (op[2] + "/" + base(p))
            for table in (self.disk, self.ver):
                for s in [s for s in table if inside(p, s)]:
                    table[q + s[len(p):]] = table.pop(s)
        elif k == "commit":
            self.basis = self.wt_entries()
            self.nrev += 1
        elif k == "revert":
            bs = self.basis or {}
            self.ver = {p: v[0] for p, v in bs.items()}
            self.adopt = ("unversioned",)
            for p, v in bs.items():
                self.disk[p] = ("file", v[2], v[3]) if v[1] == "file" else ("directory",)
        elif k == "revertp":
            p = op[1]
            bs = self.basis or {}
            if p in bs and p in self.ver:
                v = bs[p]
                self.disk[p] = ("file", v[2], v[3])
            elif p in bs:
                v = bs[p]
                self.ver[p] = v[0]
                self.disk[p] = ("file", v[2], v[3])
            else:
                del self.ver[p]
        elif k == "flip":
            p = op[1]
            self.disk[p] = ("directory",) if self.isfile(p) else ("file", b"x\n", False)
        elif k == "reopen":
            pass
        else:
            raise ValueError(op)

    def adopt_disk(self, real_disk):
        """Take over from the real tree the part of the disk state the statement leaves open."""
        if self.adopt is None:
            return
        if self.adopt[0] == "under":
            p = self.adopt[1]
            top = parent(p)
            for q in [q for q in self.disk if inside(top, q) or top == ""]:
                if q not in self.ver and not (self.git and self.versioned(q)):
                    del self.disk[q]
            for q, v in real_disk.items():
                if (inside(top, q) or top == "") and q not in self.ver and q not in self.disk:
                    self.disk[q] = v
        else:
            for q in [q for q in self.disk if q not in self.ver]:
                if self.git and self.versioned(q):
                    continue
                del self.disk[q]
            for q, v in real_disk.items():
                if q not in self.disk:
                    self.disk[q] = v
        self.adopt = None


def enabled(m):
    """Operations whose outcome the model defines in state m (simplest first)."""
    ns = m.ns
    out = []
    bs = m.basis or {}
    changed = m.has_changes()
    for p in ns.files:
        if m.isdir(parent(p)) and not m.isdir(p):
            for c in ns.contents:
                if not (m.isfile(p) and m.disk[p][1] == c):
                    out.append(("write", p, c))
    for p in ns.files:
        if m.isfile(p):
            out.append(("chmod", p))
    for d in ns.dirs:
        if d not in m.disk and m.isdir(parent(d)) and (m.git or m.versioned(parent(d))):
            out.append(("mkdir", d))
    for p in ns.paths:
        if p in m.disk and not m.versioned(p) and p not in m.ver:
            if m.git or m.versioned(parent(p)):
                out.append(("add", p))
    if any(p not in m.ver and not ignored_name(p) and not (m.git and m.isdir(p)) for p in m.disk):
        out.append(("sadd",))
    for p in ns.paths:
        if p in m.disk and (p in m.ver or (m.git and m.isdir(p) and m.versioned(p))):
            out.append(("rm", p, "keep"))
            out.append(("rm", p, "force"))
            out.append(("rm", p, "safe"))
            out.append(("unv", p))
            for group in (ns.files, ns.dirs):
                if p not in group:
                    continue
                for q in group:
                    if q == p or q in m.disk or inside(p, q):
                        continue
                    if not m.isdir(parent(q)):
                        continue
                    if not m.git and not m.versioned(parent(q)):
                        continue
                    if any((q + s[len(p):]) not in ns.paths for s in m.disk if inside(p, s)):
                        continue       # children would leave the namespace
                    out.append(("mv", p, q))
                    ismove = parent(q) != "" and base(q) == base(p) and parent(q) != parent(p)
                    if ismove:
                        out.append(("move", p, parent(q)))
                    # the same renames recorded AFTER the fact: the path was already moved on disk;
                    # "after" passes after=True, "auto" lets the tree detect it.  git refuses a
                    # target that is versioned in the basis tree, so that case is not enabled there.
                    if not (m.git and (q in bs or any(inside(q, b) for b in bs))):
                        for how in ("after", "auto"):
                            out.append(("mv", p, q, how))
                            if ismove:
                                out.append(("move", p, parent(q), how))
    if ns.flip and not m.git:
        for p in ns.paths:
            if p in m.ver and (m.isfile(p) or not any(inside(p, q) and q != p for q in m.disk)):
                out.append(("flip", p))
    if changed or m.basis is None:
        out.append(("commit",))
    if changed:
        out.append(("revert",))
    # git pairs removed and added files by content similarity (rename detection) and then reverts
    # both ends together; the model has no identities there, so the single-path cases are
    # only enabled when no pairing is possible
    git_added = m.git and any(p not in bs for p in m.ver)
    git_removed = m.git and any(p not in m.ver for p in bs)
    for p in ns.files:
        # revert of one path: only the cases whose outcome the statement determines - every
        # ancestor directory is unchanged (same identity at the same path in basis and tree)
        par_ok = all(m.isdir(a) and (m.git or (a in m.ver and a in bs and m.ver[a] == bs[a][0]))
                     for a in ancestors(p))
        if not par_ok:
            continue
        if p in bs and p in m.ver and bs[p][0] == m.ver[p] and m.isfile(p) and bs[p][1] == "file":
            d = m.disk[p]
            if (d[1], d[2]) != (bs[p][2], bs[p][3]) and not (git_added or git_removed):
                out.append(("revertp", p))
        elif p in bs and p not in m.ver and bs[p][1] == "file" and p not in m.disk \
                and (not git_added if m.git else bs[p][0] not in m.ver.values()):
            out.append(("revertp", p))
        elif p in m.ver and p not in bs and m.isfile(p) and \
                (not git_removed if m.git else m.ver[p] not in [v[0] for v in bs.values()]):
            out.append(("revertp", p))
    return out


# ---- the real side ------------------------------------------------------------

def new_tree(kind, path=None):
    from mc import wt as mwt
    if path is None:
        path = boot.scratch("ts")
    cd = mwt.make_tree(kind, path)
    return cd


def reopen(tree):
    from breezy.workingtree import WorkingTree
    return WorkingTree.open(tree.basedir)


def run_op(tree, op, nrev=0):
    """Perform op through the public working-tree API.  Returns the tree object to go on with."""
    k = op[0]
    root = tree.basedir
    if k == "write":
        with open(os.path.join(root, op[1]), "wb") as f:
            f.write(op[2])
    elif k == "chmod":
        ap = os.path.join(root, op[1])
        mode = os.lstat(ap).st_mode
        os.chmod(ap, 0o644 if (mode & 0o100) else 0o755)
    elif k == "mkdir":
        tree.mkdir(op[1])
    elif k == "add":
        tree.add([op[1]])
    elif k == "sadd":
        tree.smart_add([root])
    elif k == "rm":
        tree.remove([op[1]], keep_files=(op[2] == "keep"), force=(op[2] == "force"))
    elif k == "unv":
        with tree.lock_tree_write():
            tree.unversion([op[1]])
    elif k in ("mv", "move"):
        how = op[3] if len(op) > 3 else None
        if how is not None:
            dest = op[2] if k == "mv" else op[2] + "/" + base(op[1])
            os.rename(os.path.join(root, op[1]), os.path.join(root, dest))
        kw = {"after": True} if how == "after" else {}
        if k == "mv":
            tree.rename_one(op[1], op[2], **kw)
        else:
            tree.move([op[1]], op[2], **kw)
    elif k == "commit":
        kw = dict(timestamp=1000000000 + nrev, timezone=0, committer=COMMITTER)
        if not is_git(tree):
            kw["rev_id"] = b"rev-%d" % nrev
        tree.commit("c%d" % nrev, **kw)
    elif k == "revert":
        tree.revert(backups=False)
    elif k == "revertp":
        tree.revert([op[1]], backups=False)
    elif k == "flip":
        ap = os.path.join(root, op[1])
        if os.path.isdir(ap):
            os.rmdir(ap)
            with open(ap, "wb") as f:
                f.write(b"x\n")
        else:
            os.unlink(ap)
            os.mkdir(ap)
    elif k == "reopen":
        return reopen(tree)
    else:
        raise ValueError(op)
    return tree


def is_git(tree):
    return type(tree).__name__.startswith("Git")


def real_disk(tree):
    from mc import wt as mwt
    out = {}
    for p, v in mwt.dir_snapshot(tree.basedir).items():
        if v[0] == "file":
            out[p] = ("file", v[1], v[2])
        elif v[0] == "dir":
            out[p] = ("directory",)
        else:
            out[p] = v
    return out


def build(seq, kind, path=None, ns=NS1):
    """Fresh real tree with seq replayed; returns (tree, model)."""
    tree = new_tree(kind, path)
    m = Model(kind == "git", ns)
    for op in seq:
        if op[0] == "commit":
            tree = run_op(tree, op, m.nrev)
        else:
            tree = run_op(tree, op)
        m.apply(op)
        if m.adopt is not None:
            m.adopt_disk(real_disk(tree))
    return tree, m


# ---- observation and comparison with the model ------------------------------------

def observe(tree, ns):
    """Everything the property talks about, read through the public tree API."""
    from breezy.transport import NoSuchFile
    o = {}
    with tree.lock_read():
        vp = sorted(p for p in tree.all_versioned_paths() if p != "")
        ents = {}
        for p in vp:
            try:
                k = tree.kind(p)
            except NoSuchFile:
                k = "missing"
            if k == "file":
                ents[p] = (k, tree.get_file_text(p), bool(tree.is_executable(p)))
            else:
                ents[p] = (k, None, False)
        o["wt"] = ents
        o["ids"] = {p: tree.path2id(p) for p in vp}
        o["iebd"] = sorted((p, ie.kind) for p, ie in tree.iter_entries_by_dir() if p != "")
        o["isv"] = {p: bool(tree.is_versioned(p)) for p in ns.paths}
        o["lsf"] = sorted((row[0], row[2]) for row in tree.list_files(include_root=False, recursive=True)
                          if row[1] == "V")
        o["parents"] = list(tree.get_parent_ids())
        basis = tree.basis_tree()
        with basis.lock_read():
            bents = {}
            bids = {}
            o["basis_root"] = False
            for p, ie in basis.iter_entries_by_dir():
                if p == "":
                    o["basis_root"] = True
                    continue
                k = basis.kind(p)
                if k == "file":
                    bents[p] = (k, basis.get_file_text(p), bool(basis.is_executable(p)))
                else:
                    bents[p] = (k, None, False)
                bids[p] = basis.path2id(p)
            o["basis"] = bents
            o["bids"] = bids
            for name, kw in (("changes", {}), ("changes_unv", {"want_unversioned": True})):
                if name == "changes_unv" and is_git(tree):
                    continue
                rows = []
                for c in tree.iter_changes(basis, **kw):
                    rows.append((c.path, bool(c.changed_content), tuple(c.versioned), tuple(c.name),
                                 tuple(c.kind), tuple(c.executable), tuple(c.parent_id), c.file_id,
                                 bool(getattr(c, "copied", False))))
                o[name] = sorted(rows, key=repr)
        o["has_changes"] = bool(tree.has_changes())
    return o


def _x(v):
    return bool(v) if v is not None else None


def compare(o, m, disk):
    """List of (aspect, detail) where the real observation o / disk differs from model m."""
    bad = []
    wt = m.wt_entries()
    exp = {p: (v[1], v[2], v[3]) for p, v in wt.items()}
    bexp = {p: (v[1], v[2], v[3]) for p, v in (m.basis or {}).items()}
    if m.git:
        for d in m.versioned_dirs_git(exp):
            exp[d] = ("directory", None, False)
        for d in m.versioned_dirs_git(list(bexp)):
            bexp[d] = ("directory", None, False)
    if sorted(o["wt"]) != sorted(exp):
        bad.append(("versioned-paths", {"real": sorted(o["wt"]), "model": sorted(exp)}))
    else:
        for p in exp:
            r, e = o["wt"][p], exp[p]
            if r[0] != e[0]:
                bad.append(("kind", {"path": p, "real": r[0], "model": e[0]}))
            elif r[1] != e[1]:
                bad.append(("content", {"path": p, "real": r[1], "model": e[1]}))
            elif r[2] != e[2]:
                bad.append(("exec", {"path": p, "real": r[2], "model": e[2]}))
    if sorted(p for p, _ in o["iebd"]) != sorted(o["wt"]):
        bad.append(("api-disagree:iter_entries_by_dir-vs-all_versioned_paths",
                    {"iter_entries_by_dir": o["iebd"], "all_versioned_paths": sorted(o["wt"])}))
    if sorted(p for p, _ in o["lsf"]) != sorted(p for p in exp if p in m.disk):
        bad.append(("api-disagree:list_files-vs-model",
                    {"list_files": o["lsf"], "model": sorted(p for p in exp if p in m.disk)}))
    for p, v in o["isv"].items():
        if v != (p in exp):
            bad.append(("api-disagree:is_versioned", {"path": p, "is_versioned": v, "model": p in exp}))
    for p, i in o["ids"].items():
        if i is None:
            bad.append(("api-disagree:path2id-None-for-versioned-path", {"path": p}))
    if o["basis"] != bexp:
        bad.append(("basis", {"real": o["basis"], "model": bexp}))
    if o["basis_root"] != (m.basis is not None):
        bad.append(("basis-root", {"real": o["basis_root"], "commits": m.nrev}))
    if len(o["parents"]) != (1 if m.basis is not None else 0):
        bad.append(("parents", {"real": o["parents"], "commits": m.nrev}))
    if disk != m.disk:
        bad.append(("disk", {"real": disk, "model": m.disk}))
    if not m.git:
        # identities: real file ids <-> model identities must be one bijection over both trees
        fwd, rev = {}, {}
        pairs = [(o["ids"].get(p), i) for p, i in m.ver.items()] + \
                [(o["bids"].get(p), v[0]) for p, v in (m.basis or {}).items()]
        for r, i in pairs:
            if fwd.setdefault(r, i) != i or rev.setdefault(i, r) != r:
                bad.append(("identity", {"wt_ids": o["ids"], "basis_ids": o["bids"], "model_wt": m.ver,
                                          "model_basis": {p: v[0] for p, v in (m.basis or {}).items()}}))
                break
        expd = m.diff()
        got = sorted(((c[0][0], c[0][1], c[1], c[4], (_x(c[5][0]), _x(c[5][1]))) for c in o["changes"]), key=repr)
        if got != expd:
            bad.append(("changes", {"real": got, "model": expd}))
        for c in o["changes"]:
            (op, np_), vers, names = c[0], c[2], c[3]
            if vers != (op is not None, np_ is not None) or \
                    names != (None if op is None else base(op), None if np_ is None else base(np_)):
                bad.append(("changes-inconsistent-row", {"row": c[:7]}))
            pids = (None if op in (None, "") else (o["bids"].get(parent(op)) if parent(op) else "ROOT"),
                    None if np_ in (None, "") else (o["ids"].get(parent(np_)) if parent(np_) else "ROOT"))
            for side in (0, 1):
                if pids[side] not in (None, "ROOT") and c[6][side] != pids[side]:
                    bad.append(("changes-inconsistent-parent", {"row": c[:7]}))
        unv = sorted(c[0][1] for c in o["changes_unv"] if c[2] == (False, False))
        ver_rows = [c for c in o["changes_unv"] if c[2] != (False, False)]
        if ver_rows != o["changes"]:
            bad.append(("changes-unversioned-variant-differs", {"with": ver_rows, "without": o["changes"]}))
        expu = sorted(p for p in m.disk if p not in m.ver and m.versioned(parent(p)))
        if unv != expu:
            bad.append(("unversioned", {"real": unv, "model": expu}))
    else:
        rem, add, mod = set(), set(), set()
        for c in o["changes"]:
            (op, np_), kinds = c[0], c[4]
            if "directory" in kinds and set(kinds) <= {"directory", None}:
                continue
            if op is not None and np_ is not None and op == np_:
                if kinds[0] is None:
                    add.add(np_)
                elif kinds[1] is None:
                    rem.add(op)
                else:
                    mod.add(np_)
                continue
            if op is not None and c[2][0] and not c[8]:
                rem.add(op)
            if np_ is not None and c[2][1]:
                add.add(np_)
        erem, eadd, emod = m.diff()
        # a path reported as copy source stays; a rename whose content also changed is still remove+add
        if (rem, add) != (erem, eadd) or mod != emod:
            bad.append(("changes", {"real": {"removed": sorted(rem), "added": sorted(add), "modified": sorted(mod)},
                                    "model": {"removed": sorted(erem), "added": sorted(eadd), "modified": sorted(emod)},
                                    "rows": [c[:6] + (("copied",) if c[8] else ()) for c in o["changes"]]}))
    if o["has_changes"] != m.has_changes() and not (m.basis is None and not m.git):
        bad.append(("has_changes", {"real": o["has_changes"], "model": m.has_changes()}))
    return bad


def innermost_repo_frame(exc):
    """'file.py:function' of the innermost traceback frame that lives in the checked breezy."""
    import traceback
    best = None
    for fs in traceback.extract_tb(exc.__traceback__):
        fn = os.path.realpath(fs.filename)
        if fn.startswith(os.path.realpath(boot.REPO) + os.sep):
            best = "%s:%s" % (os.path.relpath(fn, os.path.realpath(boot.REPO)), fs.name)
    return best or "outside-repo"


class Trouble(Exception):
    def __init__(self, sig, detail):
        Exception.__init__(self, sig)
        self.sig = sig
        self.detail = detail


TREE_OPS = ("mkdir", "add", "sadd", "rm", "unv", "mv", "move", "commit", "revert", "revertp")


def step(tree, m, op, kind, acc=None, check=True, warm=False):
    """Run op on the real tree and on the model (in place), compare.  Returns the tree object.
    Raises Trouble(signature, detail) on any disagreement / exception.

    warm: the operation runs inside ONE write lock that first fills the tree's caches
    (all_versioned_paths, iter_entries_by_dir, list_files) and the observation is also taken and
    compared before the lock is released (cache-backed and dirstate/index-backed queries must
    both agree with the model inside the lock), then again after unlock and after re-open."""
    lock = None
    if warm:
        lock = tree.lock_write()
        try:
            list(tree.all_versioned_paths())
            list(tree.iter_entries_by_dir())
            list(tree.list_files())
        except Exception as e:  # noqa
            lock.unlock()
            raise Trouble("%s:warm-before-%s:%s:%s" % (kind, opname(op), type(e).__name__, innermost_repo_frame(e)),
                          {"error": str(e)[:300]})
    try:
        try:
            tree = run_op(tree, op, m.nrev)
        except Exception as e:  # noqa: an exception for an operation the model enables is a finding
            raise Trouble("%s:%s:%s:%s" % (kind, opname(op), type(e).__name__, innermost_repo_frame(e)),
                          {"error": str(e)[:300]})
        m.apply(op)
        disk = real_disk(tree)
        m.adopt_disk(disk)
        if warm and check:
            try:
                oin = observe(tree, m.ns)
            except Exception as e:  # noqa
                raise Trouble("%s:observe-in-lock-after-%s:%s:%s" % (
                    kind, opname(op), type(e).__name__, innermost_repo_frame(e)), {"error": str(e)[:300]})
            bad = compare(oin, m, disk)
            if bad:
                raise Trouble("%s:%s:in-lock:%s" % (kind, opname(op), bad[0][0]),
                              {"aspect": bad[0][0], "mismatch": bad[0][1],
                               "other_aspects": [b[0] for b in bad[1:]]})
    finally:
        if lock is not None:
            lock.unlock()
    if not check:
        return tree
    try:
        o = observe(tree, m.ns)
    except Exception as e:  # noqa
        raise Trouble("%s:observe-after-%s:%s:%s" % (kind, opname(op), type(e).__name__, innermost_repo_frame(e)),
                      {"error": str(e)[:300]})
    bad = compare(o, m, disk)
    if bad:
        raise Trouble("%s:%s:%s" % (kind, opname(op), bad[0][0]), {"aspect": bad[0][0], "mismatch": bad[0][1],
                                                                 "other_aspects": [b[0] for b in bad[1:]]})
    try:
        o2 = observe(reopen(tree), m.ns)
    except Exception as e:  # noqa
        raise Trouble("%s:reopen-after-%s:%s:%s" % (kind, opname(op), type(e).__name__, innermost_repo_frame(e)),
                      {"error": str(e)[:300]})
    if o2 != o:
        diff = sorted(k for k in o if o[k] != o2.get(k))
        raise Trouble("%s:%s:reopen-differs:%s" % (kind, opname(op), diff[0]),
                      {"fields": diff, "before": o[diff[0]], "after_reopen": o2[diff[0]]})
    if acc is not None:
        acc.outcomes.add(hash(repr((o["changes"] and [c[:6] for c in o["changes"]], sorted(o["wt"].items())))))
    return tree


def opname(op):
    if op[0] == "rm":
        return "remove-" + op[2]
    if op[0] in ("mv", "move") and len(op) > 3:
        return {"mv": "rename_one", "move": "move"}[op[0]] + "-" + op[3]
    return {"mv": "rename_one", "unv": "unversion", "sadd": "smart_add", "revertp": "revert-path",
            "flip": "kind-change"}.get(op[0], op[0])


def replay(seq, kind, ns, check=False, acc=None):
    """Fresh tree, seq executed on ONE live object, model alongside (checked if check)."""
    tree = new_tree(kind)
    m = Model(kind == "git", ns)
    for i, op in enumerate(seq):
        try:
            tree = step(tree, m, op, kind, acc, check=check)
        except Trouble as t:
            t.detail["history"] = list(seq[:i + 1])
            t.detail["mode"] = "live object"
            raise
        if check and acc is not None:
            acc.count("live_steps")
    return tree, m


# ---- explicit-state search --------------------------------------------------------------

_CFG = {}


def _expand(chunk):
    """Worker: for every history in the chunk build the state (live replay, checked when
    cfg['check']) and execute every enabled op on a copy opened afresh."""
    kind, ns, mode, check = _CFG["kind"], _CFG["ns"], _CFG["mode"], _CFG["check"]
    acc = par.Acc()
    acc.succ = []
    acc.best = {}
    for h in chunk:
        try:
            tree, m = replay(h, kind, ns, check=check and mode == "fresh", acc=acc)
        except Trouble as t:
            _note(acc, t.sig + ":live", t.detail)
            continue
        acc.count("states_expanded")
        src = tree.basedir
        ops = enabled(m)
        for op in ops:
            m2 = m.copy()
            if mode == "fresh":
                dst = src + "-x"
                shutil.copytree(src, dst, symlinks=True)
                from breezy.workingtree import WorkingTree
                t2 = WorkingTree.open(dst)
            else:
                t2, _ = replay(h, kind, ns, check=False)
                dst = t2.basedir
            acc.n += 1
            acc.count("op:" + opname(op))
            failed = False
            try:
                step(t2, m2, op, kind, acc, check=True)
            except Trouble as t:
                failed = True
                t.detail["history"] = list(h) + [op]
                t.detail["mode"] = "reopened before the last op" if mode == "fresh" else "live object"
                _note(acc, t.sig, t.detail)
            else:
                acc.succ.append((m2.key(), h + (op,)))
                if m2.has_changes():
                    acc.nt(m2.key())
            shutil.rmtree(dst, ignore_errors=True)
            if mode == "fresh" and check and op[0] in TREE_OPS and not failed:
                # the same transition inside one lock with warm caches (skipped when the plain
                # execution already violated the oracle: that defect is reported once)
                m3 = m.copy()
                shutil.copytree(src, dst, symlinks=True)
                t3 = WorkingTree.open(dst)
                acc.n += 1
                acc.count("warm-lock-transitions")
                try:
                    step(t3, m3, op, kind, acc, check=True, warm=True)
                except Trouble as t:
                    t.detail["history"] = list(h) + [op]
                    t.detail["mode"] = "one lock, warm caches"
                    sig = t.sig if ":in-lock:" in t.sig or "-in-lock-" in t.sig else t.sig + ":warm-lock"
                    _note(acc, sig, t.detail)
                shutil.rmtree(dst, ignore_errors=True)
        shutil.rmtree(src, ignore_errors=True)
    return acc


def _note(acc, sig, detail):
    acc.count("violations_raw")
    cur = acc.best.get(sig)
    k = (len(detail["history"]), repr(detail["history"]))
    if cur is None or k < cur[0]:
        acc.best[sig] = (k, detail)


class Result:
    pass


_WARM = set()

WARM_SEQ = (("write", "a", b"x\n"), ("mkdir", "d"), ("write", "d/a", b"y\n"), ("add", "a"), ("sadd",),
            ("commit",), ("mv", "a", "b"), ("chmod", "d/a"), ("write", "b", b"y\n"), ("revertp", "b"),
            ("move", "b", "d"), ("rm", "d/b", "safe"), ("revert",), ("unv", "a"), ("rm", "d", "force"),
            ("commit",), ("reopen",), ("write", "b", b"x\n"), ("add", "b"), ("rm", "b", "keep"))


def warm(kind):
    """Resolve breezy's lazy imports in the parent (forked workers then inherit them) and create
    the per-user files (ignore list) that concurrent workers would otherwise race to create."""
    if kind in _WARM:
        return
    import logging
    logging.getLogger("brz").setLevel(logging.ERROR)
    from breezy import ignores
    ignores.get_user_ignores()
    tree = new_tree(kind)
    m = Model(kind == "git", NS1)
    for op in WARM_SEQ:
        try:
            tree = step(tree, m, op, kind, None, check=True)
        except Trouble:
            break
    shutil.rmtree(tree.basedir, ignore_errors=True)
    _WARM.add(kind)


START_EMPTY = ()
START_FULL = (("write", "a", b"x\n"), ("mkdir", "d"), ("write", "d/a", b"y\n"), ("sadd",), ("commit",))


def explore(depth, kind, ns=NS1, seed=0, mode="fresh", check=True, jobs=None, start=START_EMPTY):
    """Level-synchronous BFS.  mode 'fresh': every transition on a copy of the state directory
    opened as a new object (and every representative history replayed on one live object);
    mode 'live': every transition at the end of a replay of its history on one live object."""
    _CFG.update(kind=kind, ns=ns, mode=mode, check=check)
    warm(kind)
    m0 = Model(kind == "git", ns)
    for op in start:
        m0.apply(op)
    states = {m0.key(): tuple(start)}
    frontier = [tuple(start)]
    res = Result()
    res.levels = []
    res.best = {}
    res.acc = par.Acc()
    res.transitions = 0
    for level in range(depth):
        accs = par.pmap(_expand, frontier, seed=seed, jobs=jobs)
        new = {}
        for a in accs:
            res.acc.merge(a)
            for sig, (k, d) in a.best.items():
                if sig not in res.best or k < res.best[sig][0]:
                    res.best[sig] = (k, d)
            for key, h in a.succ:
                res.transitions += 1
                if key in states:
                    continue
                if key not in new or h < new[key]:
                    new[key] = h
        states.update(new)
        frontier = sorted(new.values())
        res.levels.append(len(frontier))
        if not frontier:
            break
    res.states = states
    res.frontier = frontier
    return res


def sequences(depth, kind, ns=NS1, seed=0, jobs=None, start=START_EMPTY):
    """One history per distinct state reachable by <= depth operations from `start` (shortest
    first).  Transitions on which the real tree raises are not followed."""
    r = explore(depth, kind, ns=ns, seed=seed, mode="fresh", check=False, jobs=jobs, start=start)
    return sorted(r.states.values(), key=lambda h: (len(h), h))
