"""Reachable working-tree states: reference model, real executor and explicit-state search.

Shared by C09 (which checks every transition) and by the tree-level checks that
need "all working-tree states reachable by <= k operations" as their input space.

API (everything is regenerated on the current breezy; nothing is cached on disk):

  explore(depth, kind, ns=NS1, seed=0, both_modes=True)  -> Result
        level-synchronous BFS over operation sequences on REAL working trees
        (kind: "bzr" = 2a dirstate tree, "git" = git index tree), events enabled
        by the reference model, dedup on the canonical model state.
        Result.states   {canonical key: history}   (history = tuple of ops)
        Result.acc      par.Acc with counters / violations (C09's oracle)
  sequences(depth, kind, ns=NS1)  -> sorted list of histories, one per distinct reachable
        state (the shortest, lexicographically first history reaching it), [()] first.
  build(seq, kind, path=None)  -> (WorkingTree, Model): fresh tree on /dev/shm with the
        history replayed (real code), and the model state that goes with it.
  enabled(model) -> list of ops;  Model.apply(op) -> None;  run_op(tree, op) -> tree

An op is a tuple: ("write",p,c) ("chmod",p) ("mkdir",d) ("add",p) ("sadd",)
("rm",p,"keep"|"force"|"safe") ("unv",p) ("mv",p,q) ("move",p,d) ("commit",)
("revert",) ("revertp",p) and the pseudo op ("reopen",) = drop the object, WorkingTree.open.
"""
import os
import shutil

from mc import boot, par

COMMITTER = "Verif <verif@example.com>"


class NS:
    """A bounded namespace: allowed file paths, directory paths, contents."""

    def __init__(self, name, files, dirs, contents=(b"x\n", b"y\n")):
        self.name = name
        self.files = tuple(files)
        self.dirs = tuple(dirs)
        self.contents = tuple(contents)
        self.paths = self.dirs + self.files


NS1 = NS("a,b,d/,d/a", ("a", "b", "d/a"), ("d",))
NS2 = NS("a,b,d/,e/,d/a,e/a", ("a", "b", "d/a", "e/a"), ("d", "e"))
NS3 = NS("a,d/,d/a,d/e/,d/e/a", ("a", "d/a", "d/e/a"), ("d", "d/e"), contents=(b"x\n",))


def parent(p):
    return p.rsplit("/", 1)[0] if "/" in p else ""


def base(p):
    return p.rsplit("/", 1)[-1]


def inside(d, p):
    return p == d or p.startswith(d + "/")


def ignored_name(p):
    """Default user ignore rules that can match names the operations create (backups)."""
    return any(seg.endswith("~") for seg in p.split("/"))


class Model:
    """Abstract versioned file system.

    disk : {path: ("file", bytes, exec) | ("directory",)}
    ver  : {path: identity}   bzr: files and directories; git: files only
    basis: None (no commit yet) | {path: (identity, kind, bytes|None, exec)}
    """

    def __init__(self, git, ns):
        self.git = git
        self.ns = ns
        self.disk = {}
        self.ver = {}
        self.basis = None
        self.nid = 1
        self.nrev = 0
        self.adopt = None      # set by apply(): which part of the real state is adopted

    def copy(self):
        m = Model(self.git, self.ns)
        m.disk = dict(self.disk)
        m.ver = dict(self.ver)
        m.basis = None if self.basis is None else dict(self.basis)
        m.nid = self.nid
        m.nrev = self.nrev
        return m

    # ---- queries -------------------------------------------------------
    def isdir(self, p):
        return p == "" or self.disk.get(p, (None,))[0] == "directory"

    def isfile(self, p):
        return self.disk.get(p, (None,))[0] == "file"

    def versioned(self, p):
        if p == "":
            return True
        if p in self.ver:
            return True
        if self.git:
            return any(inside(p, q) for q in self.ver)
        return False

    def versioned_dirs_git(self, files):
        out = set()
        for q in files:
            while "/" in q:
                q = parent(q)
                out.add(q)
        return out

    def new_id(self):
        if self.git:
            return 0
        self.nid += 1
        return self.nid - 1

    def wt_entries(self):
        """{path: (identity, kind, content, exec)} of the versioned working state."""
        out = {}
        for p, i in self.ver.items():
            d = self.disk[p]
            if d[0] == "file":
                out[p] = (i, "file", d[1], d[2])
            else:
                out[p] = (i, "directory", None, False)
        return out

    def diff(self):
        """Changes basis -> working tree.

        bzr: by identity: list of (oldpath, newpath, changed_content, kinds, execs)
        git: by path: (set removed, set added, set modified)
        """
        wt = self.wt_entries()
        bs = self.basis or {}
        if self.git:
            removed = {p for p in bs if p not in wt}
            added = {p for p in wt if p not in bs}
            modified = {p for p in wt if p in bs and (wt[p][2] != bs[p][2] or wt[p][3] != bs[p][3])}
            return removed, added, modified
        by_old = {v[0]: (p, v) for p, v in bs.items()}
        by_new = {v[0]: (p, v) for p, v in wt.items()}
        old_ids = {p: v[0] for p, v in bs.items()}
        new_ids = {p: v[0] for p, v in wt.items()}
        out = []
        if self.basis is None:
            out.append((None, "", True, (None, "directory"), (None, False)))
        for i in sorted(set(by_old) | set(by_new)):
            o = by_old.get(i)
            n = by_new.get(i)
            if o and n:
                (op, ov), (np_, nv) = o, n
                cc = ov[1] != nv[1] or (ov[1] == "file" and ov[2] != nv[2])
                opar = old_ids.get(parent(op), 0)
                npar = new_ids.get(parent(np_), 0)
                moved = opar != npar or base(op) != base(np_)
                xc = ov[1] == "file" and nv[1] == "file" and ov[3] != nv[3]
                if cc or moved or xc:
                    out.append((op, np_, cc, (ov[1], nv[1]), (ov[3], nv[3])))
            elif o:
                op, ov = o
                out.append((op, None, True, (ov[1], None), (ov[3], None)))
            else:
                np_, nv = n
                out.append((None, np_, True, (None, nv[1]), (None, nv[3])))
        return sorted(out, key=repr)

    def has_changes(self):
        d = self.diff()
        if self.git:
            return bool(d[0] or d[1] or d[2])
        return bool(d)

    def key(self):
        """Canonical state: everything the property can observe (identities renamed by
        order of first appearance over sorted paths)."""
        ren = {}

        def r(i):
            if i not in ren:
                ren[i] = len(ren)
            return ren[i]
        ver = tuple((p, r(i)) for p, i in sorted(self.ver.items()))
        bs = None if self.basis is None else tuple(
            (p, r(v[0]), v[1], v[2], v[3]) for p, v in sorted(self.basis.items()))
        return (tuple(sorted(self.disk.items())), ver, bs)

    # ---- transitions ------------------------------------------------------
    def apply(self, op):
        """Apply op; afterwards self.adopt is None or a description of what part of the
        real state the model must adopt because the statement does not define it."""
        self.adopt = None
        k = op[0]
        if k == "write":
            _, p, c = op
            x = self.disk[p][2] if p in self.disk else False
            self.disk[p] = ("file", c, x)
        elif k == "chmod":
            d = self.disk[op[1]]
            self.disk[op[1]] = ("file", d[1], not d[2])
        elif k == "mkdir":
            self.disk[op[1]] = ("directory",)
            if not self.git:
                self.ver[op[1]] = self.new_id()
        elif k == "add":
            p = op[1]
            if self.git and self.isdir(p):
                return
            self.ver[p] = self.new_id()
        elif k == "sadd":
            for p in sorted(self.disk):
                if p in self.ver or ignored_name(p):
                    continue
                if self.git and self.isdir(p):
                    continue
                self.ver[p] = self.new_id()
        elif k in ("rm", "unv"):
            p = op[1]
            mode = op[2] if k == "rm" else "keep"
            for q in [q for q in self.ver if inside(p, q)]:
                del self.ver[q]
            if mode == "force":
                for q in [q for q in self.disk if inside(p, q)]:
                    del self.disk[q]
            elif mode == "safe":
                self.adopt = ("under", p)
        elif k in ("mv", "move"):
            p = op[1]
            q = op[2] if k == "mv" else (op[2] + "/" + base(p))
            for table in (self.disk, self.ver):
                for s in [s for s in table if inside(p, s)]:
                    table[q + s[len(p):]] = table.pop(s)
        elif k == "commit":
            self.basis = self.wt_entries()
            self.nrev += 1
        elif k == "revert":
            bs = self.basis or {}
            self.ver = {p: v[0] for p, v in bs.items()}
            self.adopt = ("unversioned",)
            for p, v in bs.items():
                self.disk[p] = ("file", v[2], v[3]) if v[1] == "file" else ("directory",)
        elif k == "revertp":
            p = op[1]
            bs = self.basis or {}
            if p in bs and p in self.ver:
                v = bs[p]
                self.disk[p] = ("file", v[2], v[3])
            elif p in bs:
                v = bs[p]
                self.ver[p] = v[0]
                self.disk[p] = ("file", v[2], v[3])
            else:
                del self.ver[p]
        elif k == "reopen":
            pass
        else:
            raise ValueError(op)

    def adopt_disk(self, real_disk):
        """Take over from the real tree the part of the disk state the statement leaves open."""
        if self.adopt is None:
            return
        if self.adopt[0] == "under":
            p = self.adopt[1]
            top = parent(p)
            for q in [q for q in self.disk if inside(top, q) or top == ""]:
                if q not in self.ver and not (self.git and self.versioned(q)):
                    del self.disk[q]
            for q, v in real_disk.items():
                if (inside(top, q) or top == "") and q not in self.ver and q not in self.disk:
                    self.disk[q] = v
        else:
            for q in [q for q in self.disk if q not in self.ver]:
                if self.git and self.versioned(q):
                    continue
                del self.disk[q]
            for q, v in real_disk.items():
                if q not in self.disk:
                    self.disk[q] = v
        self.adopt = None


def enabled(m):
    """Operations whose outcome the model defines in state m (simplest first)."""
    ns = m.ns
    out = []
    bs = m.basis or {}
    changed = m.has_changes()
    for p in ns.files:
        if m.isdir(parent(p)) and not m.isdir(p):
            for c in ns.contents:
                if not (m.isfile(p) and m.disk[p][1] == c):
                    out.append(("write", p, c))
    for p in ns.files:
        if m.isfile(p):
            out.append(("chmod", p))
    for d in ns.dirs:
        if d not in m.disk and m.isdir(parent(d)) and (m.git or m.versioned(parent(d))):
            out.append(("mkdir", d))
    for p in ns.paths:
        if p in m.disk and not m.versioned(p) and p not in m.ver:
            if m.git or m.versioned(parent(p)):
                out.append(("add", p))
    if any(p not in m.ver and not ignored_name(p) and not (m.git and m.isdir(p)) for p in m.disk):
        out.append(("sadd",))
    for p in ns.paths:
        if p in m.disk and (p in m.ver or (m.git and m.isdir(p) and m.versioned(p))):
            out.append(("rm", p, "keep"))
            out.append(("rm", p, "force"))
            out.append(("rm", p, "safe"))
            out.append(("unv", p))
            for group in (ns.files, ns.dirs):
                if p not in group:
                    continue
                for q in group:
                    if q == p or q in m.disk or inside(p, q):
                        continue
                    if not m.isdir(parent(q)):
                        continue
                    if not m.git and not m.versioned(parent(q)):
                        continue
                    if any((q + s[len(p):]) not in ns.paths for s in m.disk if inside(p, s)):
                        continue       # children would leave the namespace
                    out.append(("mv", p, q))
                    if parent(q) != "" and base(q) == base(p) and parent(q) != parent(p):
                        out.append(("move", p, parent(q)))
    if changed or m.basis is None:
        out.append(("commit",))
    if changed:
        out.append(("revert",))
    for p in ns.files:
        if p in bs and p in m.ver and bs[p][0] == m.ver[p] and m.isfile(p) and bs[p][1] == "file":
            d = m.disk[p]
            if (d[1], d[2]) != (bs[p][2], bs[p][3]):
                out.append(("revertp", p))
        elif p in bs and p not in m.ver and bs[p][1] == "file" and p not in m.disk \
                and m.versioned(parent(p)) and m.isdir(parent(p)) \
                and (m.git or (bs[p][0] not in m.ver.values()
                               and m.ver.get(parent(p), 0) == bs.get(parent(p), (0,))[0])):
            out.append(("revertp", p))
        elif p in m.ver and p not in bs and m.isfile(p) and \
                (m.git or m.ver[p] not in [v[0] for v in bs.values()]):
            out.append(("revertp", p))
    return out


# ---- the real side ------------------------------------------------------------

def new_tree(kind, path=None):
    from mc import wt as mwt
    if path is None:
        path = boot.scratch("ts")
    cd = mwt.make_tree(kind, path)
    return cd


def reopen(tree):
    from breezy.workingtree import WorkingTree
    return WorkingTree.open(tree.basedir)


def run_op(tree, op, nrev=0):
    """Perform op through the public working-tree API.  Returns the tree object to go on with."""
    k = op[0]
    root = tree.basedir
    if k == "write":
        with open(os.path.join(root, op[1]), "wb") as f:
            f.write(op[2])
    elif k == "chmod":
        ap = os.path.join(root, op[1])
        mode = os.lstat(ap).st_mode
        os.chmod(ap, 0o644 if (mode & 0o100) else 0o755)
    elif k == "mkdir":
        tree.mkdir(op[1])
    elif k == "add":
        tree.add([op[1]])
    elif k == "sadd":
        tree.smart_add([root])
    elif k == "rm":
        tree.remove([op[1]], keep_files=(op[2] == "keep"), force=(op[2] == "force"))
    elif k == "unv":
        with tree.lock_tree_write():
            tree.unversion([op[1]])
    elif k == "mv":
        tree.rename_one(op[1], op[2])
    elif k == "move":
        tree.move([op[1]], op[2])
    elif k == "commit":
        kw = dict(timestamp=1000000000 + nrev, timezone=0, committer=COMMITTER)
        if not is_git(tree):
            kw["rev_id"] = b"rev-%d" % nrev
        tree.commit("c%d" % nrev, **kw)
    elif k == "revert":
        tree.revert(backups=False)
    elif k == "revertp":
        tree.revert([op[1]], backups=False)
    elif k == "reopen":
        return reopen(tree)
    else:
        raise ValueError(op)
    return tree


def is_git(tree):
    return type(tree).__name__.startswith("Git")


def real_disk(tree):
    from mc import wt as mwt
    out = {}
    for p, v in mwt.dir_snapshot(tree.basedir).items():
        if v[0] == "file":
            out[p] = ("file", v[1], v[2])
        elif v[0] == "dir":
            out[p] = ("directory",)
        else:
            out[p] = v
    return out


def build(seq, kind, path=None, ns=NS1):
    """Fresh real tree with seq replayed; returns (tree, model)."""
    tree = new_tree(kind, path)
    m = Model(kind == "git", ns)
    for op in seq:
        if op[0] == "commit":
            tree = run_op(tree, op, m.nrev)
        else:
            tree = run_op(tree, op)
        m.apply(op)
        if m.adopt is not None:
            m.adopt_disk(real_disk(tree))
    return tree, m
