"""C43 - Incremental uploads keep the remote directory equal to the uploaded tree.

Explicit-state search over commit sequences: from a base tree {a, b (exec), d/, d/x, l -> a}
(and a second one with nested directories {a, d/, d/s/, d/s/y}) every sequence of <= 2 (quick)
/ 3 (thorough; the symlink edits only to depth 2) edits from the alphabet {add file/dir/symlink,
modify, chmod, retarget, delete (recursive), rename/move to every free name, swap of any two
unrelated entries, file<->directory<->symlink kind change}, each edit one real commit
(mc.world.commit_spec on a 2a branch behind the vfs seam).  An upload only reads the previously
uploaded revision tree, the new revision tree and the remote directory, so the search is
over the distinct pairs (uploaded tree X reachable in j edits, tree Y reachable from X in 1..m
edits, j + m <= depth; Y more than one edit away = revisions skipped between uploads),
deduplicated up to renaming of file ids.  For every pair the real `cmd_upload` is run on a
/dev/shm remote directory (LocalTransport): X to the empty remote (first upload), Y
incrementally, X again with --overwrite -r (the remote is ahead: reverse changes), and Y with
--full over a copy of the remote holding X.  A second run adds `.bzrignore-upload` (pattern
`ign`) and the name `ign` to the namespace and evaluates the pairs that touch an ignored path.
Oracle after every upload: remote listing (kinds, bytes, exec bits, link targets) == the
revision tree minus upload-ignored paths (don't-care) and .bzrignore*/marker, marker ==
uploaded revision id.
"""
import io
import os
import shutil

from mc import boot, par
from mc import world as mw
from mc.evidence import HarnessError

from . import _c43_model as M

ID = "C43"
LEVEL = "model_checking"
TECHNIQUE = "explicit-state search over commit sequences (distinct uploaded-tree/new-tree pairs) with the real cmd_upload against a reference tree model"

MARKER = ".bzr-upload.revid"
# overwrite-back is an incremental upload too (towards the older revision)
PHASE_CLASS = {"first-upload": "first-upload", "incremental": "incremental", "overwrite-back": "incremental",
               "full-over-previous": "full-over-previous", "older-revision-without-overwrite": "older-revision-without-overwrite"}
DONT_CARE = (".bzrignore", ".bzrignore-upload", MARKER)


# ---- enumeration ---------------------------------------------------------------

def enumerate_pairs(depth, profile, symlinks):
    """[(X, Y, ops to X, ops X->Y)], deduplicated by canon_pair; simplest first."""
    ignore = M.profile(profile)
    base = ignore.base
    # states X reachable in j <= depth-1 edits (keep the smallest j)
    xs = {M.canon(base): (base, ())}
    level = [(base, ())]
    levels = [level]
    for j in range(1, depth):
        nxt = []
        for t, ops in level:
            for i, (desc, n) in enumerate(M.successors(t, "s%d" % j, ignore, symlinks)):
                k = M.canon(n)
                if k not in xs:
                    xs[k] = (n, ops + (desc,))
                    nxt.append((n, ops + (desc,)))
        levels.append(nxt)
        level = nxt
    pairs = {}
    order = []
    nodes = 0
    for j, lvl in enumerate(levels):
        m = depth - j
        for x, xops in lvl:
            seen = {M.canon_pair(x, x)}
            frontier = [(x, ())]
            for step in range(1, m + 1):
                nf = []
                for t, ops in frontier:
                    nodes += 1
                    for desc, n in M.successors(t, "s%d" % (j + step), ignore, symlinks):
                        k = M.canon_pair(x, n)
                        if k in seen:
                            continue
                        seen.add(k)
                        nf.append((n, ops + (desc,)))
                        if k not in pairs:
                            pairs[k] = True
                            order.append((x, n, xops, ops + (desc,)))
                frontier = nf
    return order, len(xs), nodes


def touches_ignored(x, y):
    bx = {e.fid: (p, e) for p, e in x.items()}
    by = {e.fid: (p, e) for p, e in y.items()}
    ign_paths = [p for p in list(x) + list(y) if M.ignored(p, True)]
    for f in set(bx) | set(by):
        if bx.get(f) == by.get(f):
            continue
        for side in (bx.get(f), by.get(f)):
            if side is None:
                continue
            p = side[0]
            if M.ignored(p, True) or p == ".bzrignore-upload" or any(q.startswith(p + "/") for q in ign_paths):
                return True
    return False


# ---- execution -------------------------------------------------------------------

_W = {}


def _world():
    if not _W:
        from mc.vfs import new_store
        store = new_store()
        store.logging = False
        _W["store"] = store
        _W["n"] = 0
        _W["scratch"] = boot.scratch("c43")
    return _W


def _reset_world():
    _W["store"].close()
    sc = _W["scratch"]
    _W.clear()
    shutil.rmtree(sc, ignore_errors=True)


def _where(e):
    import traceback
    tb = traceback.extract_tb(e.__traceback__)
    for fr in reversed(tb):
        if fr.filename.startswith(boot.REPO):
            return "%s:%s" % (os.path.basename(fr.filename), fr.name)
    return "?"


def upload(w, remote, full=False, overwrite=False, revid=None):
    """Run the real command; returns None or (exception class name, where, message)."""
    from breezy.plugins.upload.cmds import cmd_upload
    from breezy.revisionspec import RevisionSpec
    cmd = cmd_upload()
    cmd.outf = io.StringIO()
    rev = None if revid is None else [RevisionSpec.from_string("revid:" + revid.decode())]
    try:
        cmd.run(location=remote, directory=w["url"], full=full, overwrite=overwrite, revision=rev, quiet=True)
    except Exception as e:  # noqa
        return (type(e).__name__, _where(e), str(e)[:160])
    return None


def expected(spec, ignore):
    out = {}
    for p, e in spec.items():
        if p in DONT_CARE or M.ignored(p, ignore):
            continue
        if e.kind == "file":
            out[p] = ("file", e.content, bool(e.exec))
        elif e.kind == "directory":
            out[p] = ("dir",)
        else:
            out[p] = ("link", e.content)
    return out


def remote_listing(remote, ignore):
    from mc import wt
    snap = wt.dir_snapshot(remote, skip=())
    marker = snap.pop(MARKER, None)
    ign_left = [p for p in snap if M.ignored(p, ignore)]
    out = {}
    for p, v in snap.items():
        if p in DONT_CARE or M.ignored(p, ignore):
            continue
        out[p] = v
    return out, marker, ign_left


def diff(exp, got, ign_left):
    """[(what, path)], simplest description first."""
    out = []
    for p in sorted(set(exp) | set(got)):
        e, g = exp.get(p), got.get(p)
        if e == g:
            continue
        if g is None:
            out.append(("missing-%s" % e[0], p))
        elif e is None:
            if g[0] == "dir" and any(q.startswith(p + "/") for q in ign_left):
                continue        # kept alive by upload-ignored content below it: don't-care
            out.append(("stale-%s-left" % g[0], p))
        elif e[0] != g[0]:
            out.append(("%s-where-%s-expected" % (g[0], e[0]), p))
        elif e[0] == "file":
            if e[1] != g[1]:
                out.append(("content-differs", p))
            if e[2] != g[2]:
                out.append(("exec-bit-differs", p))
        else:
            out.append(("link-target-differs", p))
    return out


def check(phase, remote, spec, revid, ignore, err, report, prev=None):
    """Compare the remote with the tree; returns True when the oracle holds."""
    if err is not None:
        report(phase, "%s:%s" % (err[0], err[1]), None, err[2])
        return False
    got, marker, ign_left = remote_listing(remote, ignore)
    problems = diff(expected(spec, ignore), got, ign_left)
    if marker is None or marker[0] != "file" or marker[1] != revid:
        problems.append(("marker-is-not-the-uploaded-revision", MARKER))
    for what, p in problems[:1]:
        if phase in ("incremental", "overwrite-back") and p != MARKER:
            what = "%s[%s]" % (what, change_class(prev, spec, p))
        report(phase, what, p, None, ["%s %s" % x for x in problems[:6]])
    return not problems


def change_class(a, b, path):
    """How the entry at `path` (in the uploaded tree b, else in the previous tree a) changed from a to b."""
    e = b.get(path) or a.get(path)
    if e is None:
        return "unversioned"
    pa = {v.fid: (k, v) for k, v in a.items()}.get(e.fid)
    pb = {v.fid: (k, v) for k, v in b.items()}.get(e.fid)
    if pa is None:
        return "added"
    if pb is None:
        return "removed"
    parts = []
    if pa[0] != pb[0]:
        parts.append("renamed")
    if pa[1].kind != pb[1].kind:
        parts.append("kind-changed")
    elif pa[1].content != pb[1].content:
        parts.append("modified")
    if pa[1].kind == pb[1].kind == "file" and bool(pa[1].exec) != bool(pb[1].exec):
        parts.append("chmod")
    return "+".join(parts) or "unchanged"


def has_symlink_change(x, y):
    bx = {e.fid: (p, e) for p, e in x.items()}
    by = {e.fid: (p, e) for p, e in y.items()}
    for f in set(bx) | set(by):
        if bx.get(f) != by.get(f):
            for side in (bx.get(f), by.get(f)):
                if side is not None and side[1].kind == "symlink":
                    return True
    return False


def run_pair(x, y, xops, yops, ignore, acc, audit=False):
    w = _world()
    w["n"] += 1
    n = w["n"]
    # a fresh small repository per pair (opening a repository loads the indices of all its packs)
    if n > 1:
        w["store"].raw().delete_tree("b%d" % (n - 1))
    b = mw.make_branch(w["store"].transport("b%d" % n), "2a")
    w["url"] = w["store"].url + "b%d" % n
    rx, ry = b"p%d-x" % n, b"p%d-y" % n
    remote = os.path.join(w["scratch"], "remote")
    remote2 = os.path.join(w["scratch"], "remote-full")
    for r in (remote, remote2):
        shutil.rmtree(r, ignore_errors=True)
    os.mkdir(remote)
    detail = {"uploaded_tree_ops_from_base": list(xops), "then_commits": list(yops), "changes": M.n_changes(x, y),
              "ignore_file": ignore, "uploaded_tree": sorted(x), "new_tree": sorted(y),
              "profile": "ignore" if ignore else ("deep" if "d/s/y" in M.profile("deep").base and b"id-ds" in
                                                  {e.fid for t in (x, y) for e in t.values()} else "plain")}
    links = {p for t in (x, y) for p, e in t.items() if e.kind == "symlink"}

    def report(phase, what, path=None, error=None, all_=None):
        # labels: symlink = the failing path is/was a symlink or the failure is in the symlink code;
        # ign = the failing path / message names an upload-ignored path
        text = (path or "") + " " + (error or "")
        sym = (path in links) or "symlink" in what or any(('"%s"' % l) in text or ("'%s'" % l) in text for l in links)
        ign = ignore and any("ign" in part.strip("\"'").split("/") for part in text.split())
        d = dict(detail, phase=phase, base_signature="%s%s:%s" % ("ign/" if ign else "", PHASE_CLASS[phase], what))
        if path is not None:
            d["path"] = path
        if error:
            d["error"] = error
        if all_:
            d["all"] = all_
        sig = "%s%s:%s%s" % ("ign/" if ign else "", PHASE_CLASS[phase], what, ":symlink" if sym else "")
        acc.keep(sig, d)

    acc.n += 1
    if M.n_changes(x, y) >= 2:
        acc.nt(M.canon_pair(x, y))
    mw.commit_spec(b, rx, [], x)
    ok = check("first-upload", remote, x, rx, ignore, upload(w, remote), report)
    acc.count("uploads")
    if not ok:
        return
    shutil.copytree(remote, remote2, symlinks=True)
    mw.commit_spec(b, ry, [rx], y)
    ok = check("incremental", remote, y, ry, ignore, upload(w, remote), report, prev=x)
    acc.count("uploads")
    acc.outcomes.add(("incremental", ok))
    if ok:
        # the remote is now ahead of the requested revision: refused without --overwrite ...
        err = upload(w, remote, revid=rx)
        if err is None or err[0] != "DivergedUploadedTree":
            report("older-revision-without-overwrite", "not-refused", None, repr(err))
        # ... and brought back with it
        ok2 = check("overwrite-back", remote, x, rx, ignore, upload(w, remote, overwrite=True, revid=rx), report, prev=y)
        acc.count("uploads", 2)
        acc.outcomes.add(("overwrite-back", ok2))
    okf = check("full-over-previous", remote2, y, ry, ignore, upload(w, remote2, full=True), report)
    acc.count("uploads")
    acc.outcomes.add(("full", okf))
    if n % 25 == 0:
        import gc
        gc.collect()
    if n >= 500:
        _reset_world()


class Acc(par.Acc):
    """keeps the smallest failing pair per signature (par.Acc keeps only the first 200 violations)"""

    def __init__(self):
        super().__init__()
        self.best = {}

    @staticmethod
    def key(d):
        return (len(d["uploaded_tree_ops_from_base"]) + len(d["then_commits"]), d["changes"], d["ignore_file"],
                d["uploaded_tree_ops_from_base"], d["then_commits"], d["phase"])

    def keep(self, sig, d):
        self.count("violations_raw")
        k = self.key(d)
        if sig not in self.best or k < self.best[sig][0]:
            self.best[sig] = (k, d)

    def merge(self, other):
        super().merge(other)
        for sig, (k, d) in getattr(other, "best", {}).items():
            if sig not in self.best or k < self.best[sig][0]:
                self.best[sig] = (k, d)
        return self


def _work(chunk):
    acc = Acc()
    for i, ignore, x, y, xops, yops in chunk:
        run_pair(x, y, xops, yops, ignore, acc)
        if i < 2:
            acc.sample({"uploaded_tree_ops_from_base": list(xops), "then_commits": list(yops), "ignore_file": ignore})
    return acc


def run(ctx):
    depth = 2
    items = []
    stats = {}
    runs = [("plain", depth, True), ("ignore", depth, True), ("deep", depth, False)]
    if ctx.thorough:
        # depth 3 without the (documentedly unsupported) symlink edits, depth 2 with them
        runs = [("plain", 3, False), ("plain", 2, True), ("ignore", 2, True), ("deep", 2, False)]
    seen_pairs = set()
    for prof, dpt, symlinks in runs:
        pairs, nx, nodes = enumerate_pairs(dpt, prof, symlinks)
        ignore = prof == "ignore"
        if ignore:
            pairs = [p for p in pairs if touches_ignored(p[0], p[1])]
        if not ctx.thorough and prof != "plain":
            pairs = [p for p in pairs if not p[2]]       # quick: only from the base tree
        fresh = []
        for p in pairs:
            k = (prof, M.canon_pair(p[0], p[1]))
            if k not in seen_pairs:
                seen_pairs.add(k)
                fresh.append(p)
        stats["%s/depth%d%s" % (prof, dpt, "" if symlinks else "/no-symlink-edits")] = {
            "uploaded_states": nx, "pairs": len(fresh), "search_nodes": nodes}
        items.extend((i, ignore, x, y, xo, yo) for i, (x, y, xo, yo) in enumerate(fresh))
    # repositories opened by the library are kept alive by reference cycles through extension objects;
    # a fresh worker pool per slice bounds the memory of a worker
    acc = Acc()
    for lo in range(0, len(items), 6400):
        for a in par.pmap(_work, items[lo:lo + 6400], seed=ctx.seed, chunks_per_job=4):
            acc.merge(a)
    # a ...:symlink signature whose unlabelled form also occurs is the same failure
    plain = {sig for sig, (k, d) in acc.best.items() if sig == d["base_signature"]}
    best = {}
    for sig, (k, d) in acc.best.items():
        if d["base_signature"] in plain:
            sig = d["base_signature"]
        if sig not in best or k < best[sig][0]:
            best[sig] = (k, d)
    for sig in sorted(best):
        ctx.violation(sig, best[sig][1])
    ctx.assumptions.append("an upload is a function of (previously uploaded revision tree, new revision tree, remote directory); "
                           "the remote before an incremental upload equals the previously uploaded tree (checked at every step), "
                           "so sequences are explored as distinct (uploaded tree, new tree) pairs up to file-id renaming")
    ctx.assumptions.append("upload-ignored paths, .bzrignore, .bzrignore-upload are don't-care on the remote; a remote directory kept "
                           "alive only by ignored content below it is accepted")
    states = sum(s["uploaded_states"] for s in stats.values())
    return {
        "evaluations": acc.n,
        "states": states,
        "transitions": acc.n,
        "traces_validated_against_impl": acc.counters.get("uploads", 0),
        "uploads_run": acc.counters.get("uploads", 0),
        "distinct_nontrivial": len(acc.nontrivial),
        "distinct_outcomes": len(acc.outcomes),
        "rule": "non-trivial = the upload has to apply changes to at least two file ids (rename chains, swaps, "
                "directory moves with content, edits across skipped revisions)",
        "depth": ctx.q(2, 3),
        "search": stats,
        "samples": acc.samples[:3],
        "exhaustive": True,
    }


def replay(ctx, data):
    """Rebuild the pair from the recorded edit descriptions and run it again."""
    d = data["first"]
    prof = M.profile(d.get("profile", "ignore" if d["ignore_file"] else "plain"))
    t = prof.base
    trees = []
    step = 0
    for ops in (d["uploaded_tree_ops_from_base"], d["then_commits"]):
        for desc in ops:
            step += 1
            nxt = dict(M.successors(t, "s%d" % step, prof, True)).get(desc)
            if nxt is None:
                raise HarnessError("cannot replay edit %r" % desc)
            t = nxt
        trees.append(t)
    acc = Acc()
    run_pair(trees[0], trees[1], d["uploaded_tree_ops_from_base"], d["then_commits"], prof.ignore, acc)
    sigs = set(acc.best) | {v[1]["base_signature"] for v in acc.best.values()}
    return data["signature"] not in sigs
