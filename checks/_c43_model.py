"""Abstract versioned trees and the edit alphabet for C43 (and their canonical forms).

A tree is a dict path -> E(fid, kind, content, exec) (mc.world.E); directories are explicit.
Every op returns a new tree; new file ids / contents are derived from a step tag so that a
deleted-and-re-added path gets a new identity.
"""
from mc.world import D, E, F, L

class Profile:
    def __init__(self, name, base, top, child, max_depth, ignore=False):
        self.name = name
        self.base = base
        self.top = top
        self.child = child
        self.max_depth = max_depth      # components of the deepest allowed path
        self.ignore = ignore


DIRNAMES = ("d", "e", "s")
LINKNAMES = ("l",)


def profile(name):
    if name in ("plain", "ignore"):
        t = {
            "a": F(b"id-a", b"a0\n"),
            "b": F(b"id-b", b"b0\n", True),
            "d": D(b"id-d"),
            "d/x": F(b"id-dx", b"x0\n"),
            "l": L(b"id-l", "a"),
        }
        top, child = ("a", "b", "c", "d", "e", "l"), ("x", "y")
        if name == "ignore":
            t[".bzrignore-upload"] = F(b"id-ign", b"ign\n")
            t["d/ign"] = F(b"id-dign", b"ignored0\n")
            top, child = top + ("ign",), child + ("ign",)
        return Profile(name, t, top, child, 2, ignore=(name == "ignore"))
    if name == "deep":
        # nested directories: d/s/y, so that directory removals / renames have to be ordered
        t = {
            "a": F(b"id-a", b"a0\n"),
            "d": D(b"id-d"),
            "d/s": D(b"id-ds"),
            "d/s/y": F(b"id-dsy", b"y0\n"),
        }
        return Profile(name, t, ("a", "c", "d", "e"), ("s", "y"), 3)
    raise ValueError(name)


def depth(p):
    return p.count("/") + 1


def is_under(p, d):
    return p.startswith(d + "/")


def subtree(t, p):
    return [q for q in t if q == p or is_under(q, p)]


def height(t, p):
    return max(depth(q) for q in subtree(t, p)) - depth(p)


def free_targets(t, prof):
    out = [n for n in prof.top if n not in t]
    for d in sorted(q for q in t if t[q].kind == "directory" and depth(q) < prof.max_depth):
        out.extend(d + "/" + c for c in prof.child if d + "/" + c not in t)
    return out


def move(t, p, q):
    """rename p (with everything below) to q; q must be free and not below p."""
    n = {}
    for k, v in t.items():
        if k == p:
            n[q] = v
        elif is_under(k, p):
            n[q + k[len(p):]] = v
        else:
            n[k] = v
    return n


def successors(t, tag, prof, symlinks=True):
    """[(op description, new tree)] - the edit alphabet applicable to t."""
    out = []
    tg = tag.encode()
    entries = sorted(p for p in t if p != ".bzrignore-upload")
    free = free_targets(t, prof)
    md = prof.max_depth
    # additions
    for q in free:
        base = q.rsplit("/", 1)[-1]
        if base in DIRNAMES:
            if depth(q) < md:
                out.append(("add-dir %s" % q, dict(t, **{q: D(b"id-%s-%s" % (q.encode(), tg))})))
        elif base in LINKNAMES:
            if symlinks:
                out.append(("add-link %s" % q, dict(t, **{q: L(b"id-%s-%s" % (q.encode(), tg), "a")})))
        else:
            out.append(("add-file %s" % q, dict(t, **{q: F(b"id-%s-%s" % (q.encode(), tg), b"new %s\n" % tg)})))
    for p in entries:
        e = t[p]
        if e.kind == "symlink" and not symlinks:
            continue
        # content / exec / target changes
        if e.kind == "file":
            out.append(("modify %s" % p, dict(t, **{p: E(e.fid, "file", e.content + b"mod %s\n" % tg, e.exec)})))
            out.append(("chmod %s" % p, dict(t, **{p: E(e.fid, "file", e.content, not e.exec)})))
        elif e.kind == "symlink":
            out.append(("retarget %s" % p, dict(t, **{p: L(e.fid, e.content + "x")})))
        # delete (recursively)
        gone = set(subtree(t, p))
        out.append(("delete %s" % p, {k: v for k, v in t.items() if k not in gone}))
        # renames / moves
        h = height(t, p)
        for q in free:
            if is_under(q, p) or depth(q) + h > md:
                continue
            if e.kind == "directory" and h == 0 and depth(q) >= md:
                continue            # a directory lives where it could have children
            out.append(("rename %s -> %s" % (p, q), move(t, p, q)))
        # kind changes (same file id, same path; the content of a directory goes away)
        for kind in ("file", "directory", "symlink"):
            if kind == e.kind or (kind == "symlink" and not symlinks):
                continue
            if kind == "directory" and depth(p) >= md:
                continue
            n = {k: v for k, v in t.items() if not is_under(k, p)}
            if kind == "file":
                n[p] = F(e.fid, b"was %s %s\n" % (e.kind.encode(), tg))
            elif kind == "directory":
                n[p] = D(e.fid)
            else:
                n[p] = L(e.fid, "b")
            out.append(("%s %s becomes %s" % (e.kind, p, kind), n))
    # swaps
    for i, p in enumerate(entries):
        for q in entries[i + 1:]:
            if is_under(q, p) or is_under(p, q):
                continue
            if not symlinks and "symlink" in (t[p].kind, t[q].kind):
                continue
            if depth(q) + height(t, p) > md or depth(p) + height(t, q) > md:
                continue
            if (t[p].kind == "directory" and depth(q) >= md) or (t[q].kind == "directory" and depth(p) >= md):
                continue
            tmp = "\0tmp"
            n = move(move(move(t, p, tmp), q, p), tmp, q)
            out.append(("swap %s <-> %s" % (p, q), n))
    return out


def canon_pair(x, y):
    """Canonical hashable form of an (old tree, new tree) pair: file ids renamed by first
    appearance (identity between the two trees is preserved, the spelling is not)."""
    ids = {}

    def cid(fid):
        if fid not in ids:
            ids[fid] = len(ids)
        return ids[fid]

    def c(t):
        return tuple((p, cid(t[p].fid), t[p].kind, t[p].content, bool(t[p].exec)) for p in sorted(t))
    return (c(x), c(y))


def canon(t):
    return canon_pair(t, {})[0]


def ignored(path, ignore):
    """.bzrignore-upload holds the single pattern `ign`: a path is ignored when one of its
    components is named ign (pattern without slash = matches the basename at any depth; a path
    below an ignored directory is ignored)."""
    return ignore and "ign" in path.split("/")


def n_changes(x, y):
    """number of file ids whose (path, kind, content, exec) differ"""
    bx = {e.fid: (p, e.kind, e.content, e.exec) for p, e in x.items()}
    by = {e.fid: (p, e.kind, e.content, e.exec) for p, e in y.items()}
    return sum(1 for f in set(bx) | set(by) if bx.get(f) != by.get(f))
