"""Abstract versioned trees and the edit alphabet for C43 (and their canonical forms).

A tree is a dict path -> E(fid, kind, content, exec) (mc.world.E); directories are explicit.
Every op returns a new tree; new file ids / contents are derived from a step tag so that a
deleted-and-re-added path gets a new identity.
"""
from mc.world import D, E, F, L

TOP = ("a", "b", "c", "d", "e", "l")
CHILD = ("x", "y")


def base_tree(ignore):
    t = {
        "a": F(b"id-a", b"a0\n"),
        "b": F(b"id-b", b"b0\n", True),
        "d": D(b"id-d"),
        "d/x": F(b"id-dx", b"x0\n"),
        "l": L(b"id-l", "a"),
    }
    if ignore:
        t[".bzrignore-upload"] = F(b"id-ign", b"ign\n")
        t["d/ign"] = F(b"id-dign", b"ignored0\n")
    return t


def names(ignore):
    top = TOP + (("ign",) if ignore else ())
    child = CHILD + (("ign",) if ignore else ())
    return top, child


def is_under(p, d):
    return p.startswith(d + "/")


def subtree(t, p):
    return [q for q in t if q == p or is_under(q, p)]


def free_targets(t, ignore):
    top, child = names(ignore)
    out = [n for n in top if n not in t]
    for d in sorted(q for q in t if t[q].kind == "directory" and "/" not in q):
        out.extend(d + "/" + c for c in child if d + "/" + c not in t)
    return out


def move(t, p, q):
    """rename p (with everything below) to q; q must be free and not below p."""
    n = {}
    for k, v in t.items():
        if k == p:
            n[q] = v
        elif is_under(k, p):
            n[q + k[len(p):]] = v
        else:
            n[k] = v
    return n


def successors(t, tag, ignore, symlinks=True):
    """[(op description, new tree)] - the edit alphabet applicable to t."""
    out = []
    tg = tag.encode()
    entries = sorted(p for p in t if p != ".bzrignore-upload")
    free = free_targets(t, ignore)
    top, child = names(ignore)
    # additions
    for q in free:
        base = q.rsplit("/", 1)[-1]
        if base in ("d", "e"):
            if "/" not in q:
                out.append(("add-dir %s" % q, dict(t, **{q: D(b"id-%s-%s" % (q.encode(), tg))})))
        elif base == "l":
            if symlinks:
                out.append(("add-link %s" % q, dict(t, **{q: L(b"id-%s-%s" % (q.encode(), tg), "a")})))
        else:
            out.append(("add-file %s" % q, dict(t, **{q: F(b"id-%s-%s" % (q.encode(), tg), b"new %s\n" % tg)})))
    for p in entries:
        e = t[p]
        # content / exec / target changes
        if e.kind == "file":
            out.append(("modify %s" % p, dict(t, **{p: E(e.fid, "file", e.content + b"mod %s\n" % tg, e.exec)})))
            out.append(("chmod %s" % p, dict(t, **{p: E(e.fid, "file", e.content, not e.exec)})))
        elif e.kind == "symlink" and symlinks:
            out.append(("retarget %s" % p, dict(t, **{p: L(e.fid, e.content + "x")})))
        # delete (recursively)
        gone = set(subtree(t, p))
        out.append(("delete %s" % p, {k: v for k, v in t.items() if k not in gone}))
        # renames
        for q in free:
            if is_under(q, p):
                continue
            if "/" in q and e.kind == "directory" and "/" not in p and q.split("/")[0] == p:
                continue
            if "/" in q and e.kind == "directory":
                continue            # keep directories at the top level (depth <= 2)
            out.append(("rename %s -> %s" % (p, q), move(t, p, q)))
        # kind changes (same file id, same path)
        for kind in ("file", "directory", "symlink"):
            if kind == e.kind or (kind == "symlink" and not symlinks) or (e.kind == "symlink" and not symlinks):
                continue
            if kind == "directory" and "/" in p:
                continue
            n = {k: v for k, v in t.items() if not is_under(k, p)}
            if kind == "file":
                n[p] = F(e.fid, b"was %s %s\n" % (e.kind.encode(), tg))
            elif kind == "directory":
                n[p] = D(e.fid)
            else:
                n[p] = L(e.fid, "b")
            out.append(("%s %s becomes %s" % (e.kind, p, kind), n))
    # swaps
    for i, p in enumerate(entries):
        for q in entries[i + 1:]:
            if is_under(q, p) or is_under(p, q):
                continue
            if not symlinks and "symlink" in (t[p].kind, t[q].kind):
                continue
            # no directory may end up below the top level
            if (t[p].kind == "directory" and "/" in q) or (t[q].kind == "directory" and "/" in p):
                continue
            tmp = "\0tmp"
            n = move(move(move(t, p, tmp), q, p), tmp, q)
            out.append(("swap %s <-> %s" % (p, q), n))
    return out


def canon_pair(x, y):
    """Canonical hashable form of an (old tree, new tree) pair: file ids renamed by first
    appearance (identity between the two trees is preserved, the spelling is not)."""
    ids = {}

    def cid(fid):
        if fid not in ids:
            ids[fid] = len(ids)
        return ids[fid]

    def c(t):
        return tuple((p, cid(t[p].fid), t[p].kind, t[p].content, bool(t[p].exec)) for p in sorted(t))
    return (c(x), c(y))


def canon(t):
    return canon_pair(t, {})[0]


def ignored(path, ignore):
    """.bzrignore-upload holds the single pattern `ign`: a path is ignored when one of its
    components is named ign (pattern without slash = matches the basename at any depth; a path
    below an ignored directory is ignored)."""
    return ignore and "ign" in path.split("/")


def n_changes(x, y):
    """number of file ids whose (path, kind, content, exec) differ"""
    bx = {e.fid: (p, e.kind, e.content, e.exec) for p, e in x.items()}
    by = {e.fid: (p, e.kind, e.content, e.exec) for p, e in y.items()}
    return sum(1 for f in set(bx) | set(by) if bx.get(f) != by.get(f))
