"""C29 - Smart protocol messages survive the wire unchanged under every segmentation.

Every message of a small grammar (protocol versions 1, 2, 3; requests and responses; argument
tuples of <= 2 over {'', 'a', '\\x01', 'ü', '\\n'}; no body / body of 0, 1, 17 (thorough: 70, 300)
bytes / readv offset lists of <= 2 pairs / streamed bodies of <= 2 (thorough 3) chunks incl. empty
ones / an error raised in mid stream / failure, error and unknown-method responses / unknown verbs /
v3 headers empty or real) is encoded by breezy's real encoder of one side and decoded by the real
decoder of the other side under ALL segmentations of the byte stream, explored as an explicit-state
search: state = (bytes delivered, snapshot of the decoder / handler / protocol objects incl. the
fragment buffer), event = deliver d >= 1 more bytes; states are deduplicated (O(n^2) instead of 2^n
executions per message) and every (state, d) transition is executed on the real code.
Decoders: ChunkedBodyDecoder and LengthPrefixedBodyDecoder directly; SmartServerRequestProtocolOne
/ Two.accept_bytes and build_server_protocol_three (ProtocolThreeDecoder + ConventionalRequestHandler
+ SmartServerRequestHandler with recording verbs); ProtocolThreeDecoder + ConventionalResponseHandler
fed by accept_bytes; SmartClientRequestProtocolOne / Two and ConventionalResponseHandler pulling
through the real SmartSimplePipesClientMedium whose pipe returns any number of bytes; the real
SmartServerSocketStreamMedium.serve() over a socket whose recv returns any number of bytes of two
or three pipelined requests (recording verbs and the real hello/get/put/has/readv verbs).
Oracle: the decoded arguments / body / offsets / chunks / error equal what was encoded, whatever the
segmentation; the decoder is complete exactly once the message is in and its unused_data (excess)
equals exactly the bytes of the next message delivered so far (0..5 of them); pipelined requests are
all answered with the right responses.  Cross-checks of the state cache: for messages of <= 14 bytes
all 2^(n-1) segmentations are run without it and must visit exactly the states the search found
(with the unabstracted fragment list); for v3 messages all 2^12 cut sets inside three windows.
Quick tier: v3 messages carry an empty headers dict except one message per shape (slice H); the
socket medium gets a reduced v3 slice; thorough: the whole grammar with the real headers.
"""
from mc import par
from mc.evidence import HarnessError

from . import _smartwire as W

ID = "C29"
LEVEL = "model_checking"
TECHNIQUE = "explicit-state search over all segmentations of real encoder output into the real decoders, brute-force cross-check on short messages"


def items(thorough):
    out = []
    for spec in W.raw_specs(thorough):
        out.append(("push", spec, W.next_bytes(spec), "any"))
        out.append(("push", spec, b"", "any"))
    for sl, spec in W.request_specs(thorough):
        if sl == "E" and spec[1] < 3:
            continue            # v1/v2 early answers are C30's subject (the request is not read to its end)
        out.append(("push", spec, W.next_bytes(spec), "any"))
        if sl != "A":
            out.append(("push", spec, b"", "any"))
    for sl, spec in W.response_specs(thorough):
        if spec[1] == 3 and sl == "A" and spec[4] == "body" and not thorough and spec[3] not in ((b"ok",), (b"ok", b"a", b"\x01")):
            continue            # v3 frames arguments and body independently: the product is left to the thorough tier
        out.append(("pull", spec, b"", "any"))
        if spec[1] == 3 and (sl == "B" or (thorough and len(spec[3]) <= 1) or (sl == "H" and spec[4] in ("body", "stream_fail"))):
            out.append(("push", spec, W.next_bytes(spec), "any"))
    # pipelined requests through the real socket medium
    for sl, spec in W.request_specs(thorough):
        if sl == "E" and spec[1] < 3:
            continue
        follow = W.hello(spec[1])
        if spec[1] == 3 and thorough and sl == "A" and len(spec[3]) == 2 and spec[3][0] != spec[3][1]:
            continue            # thorough: of the two-argument tuples only the diagonal goes through the socket medium
        if spec[1] == 3 and not thorough:
            # quick tier: v3 requests with <= 1 argument, <= 1 chunk (plus one two-chunk stream), 3 offset
            # lists, followed by a v1 request (shorter); the thorough tier runs the whole grammar
            if sl == "A" and len(spec[3]) > 1 or sl == "H":
                continue
            if spec[4] in ("stream", "stream_err") and len(spec[5]) > 1 and spec[5] != [W.B1, W.B0]:
                continue
            if spec[4] == "readv" and len(spec[5]) == 2 and spec[5][0] == spec[5][1]:
                continue
            follow = W.hello(1)
        out.append(("medium", "socket", ((spec, W.response_for(spec)), follow), "any"))
    for sc in W.real_verb_scenarios():
        out.append(("medium", "socket", sc, "any"))
    return out


def _work(chunk):
    W.install()
    acc = par.Acc()
    for item in chunk:
        s = W.explore_item(item, acc)
        acc.sample({"item": repr(item)[:300], "states": len(s.seen), "transitions": s.transitions, "executions": s.execs})
    return acc


def _audit(chunk):
    """Determinism / soundness audit of the search itself: without early abort, twice; same numbers."""
    W.install()
    acc = par.Acc()
    for item in chunk:
        run, n, t = W.make_run(item)
        a = W.Search(run).go()
        b = W.Search(run, abort=False).go()
        c = W.Search(run).go()
        acc.n += 1
        if a.seen != b.seen or a.transitions != b.transitions or a.seen != c.seen or a.execs != c.execs:
            raise HarnessError("search is not deterministic / abort changes the state set for %r" % (item,))
        if sorted(map(repr, a.verdicts)) != sorted(map(repr, c.verdicts)):
            raise HarnessError("verdicts differ between two identical searches for %r" % (item,))
    return acc


def _brute(chunk):
    """All 2^(n-1) segmentations without state cache; the set of (abstract) states visited must be
    exactly the set the search found, and the verdicts must agree."""
    W.install()
    acc = par.Acc()
    for item in chunk:
        run, n, t = W.make_run(item)
        s = W.Search(run).go()
        W.CONCRETE[0] = True
        try:
            keys, verdicts, execs = W.brute_force(run, n)
        finally:
            W.CONCRETE[0] = False
        acc.n += execs
        acc.count("bf_items")
        acc.count("bf_concrete_states", len(keys))
        akeys = {W.abstract_key(k) for k in keys}
        if akeys != s.seen:
            acc.violation("harness:state-search-and-brute-force-disagree",
                          {"item": repr(item), "only_search": len(s.seen - akeys), "only_brute_force": len(akeys - s.seen)})
        if bool(verdicts) != bool(s.verdicts):
            acc.violation("harness:state-search-and-brute-force-verdicts-disagree", {"item": repr(item)})
        W.add_violations(acc, verdicts, item, n)
        acc.nt(repr(item))
    return acc


def _window(chunk):
    """Windowed brute force for longer messages: every subset of 12 consecutive cut positions (the
    rest of the message in one piece before / after); each concrete state reached must be one the
    search knows and the verdict must be clean iff the search's is."""
    W.install()
    acc = par.Acc()
    for item, start in chunk:
        run, n, t = W.make_run(item)
        s = W.Search(run).go()
        width = 12
        W.CONCRETE[0] = True
        try:
            for mask in range(1 << width):
                cuts = [start + b for b in range(width) if mask >> b & 1 and 0 < start + b < n]
                sizes = []
                prev = 0
                for c in cuts + [n]:
                    sizes.append(c - prev)
                    prev = c
                ch = W.Chooser(tuple(sizes))
                ch.want_keys = True
                try:
                    v = run(ch)
                except W.Stop as stop:
                    v = stop.args[0] if stop.args else None
                acc.n += 1
                for key, _m, _d in ch.trace:
                    if W.abstract_key(key) not in s.seen:
                        acc.violation("harness:windowed-brute-force-state-unknown-to-search", {"item": repr(item), "sizes": sizes})
                        break
                if v and not s.verdicts:
                    acc.violation("harness:windowed-brute-force-finds-what-search-missed", {"item": repr(item), "sizes": sizes, "verdict": repr(v)[:300]})
        finally:
            W.CONCRETE[0] = False
        acc.count("window_items")
    return acc


def run(ctx):
    W.install()
    its = items(ctx.thorough)
    # simplest first inside every worker: sort by wire size
    acc = par.merge(par.pmap(_work, its, seed=ctx.seed, chunks_per_job=8))
    # brute force on everything short enough
    short = []
    for it in its:
        if it[0] == "medium":
            continue
        _run, n, _t = W.make_run(it)
        if 2 <= n <= 14:
            short.append(it)
    bf = par.merge(par.pmap(_brute, short, seed=ctx.seed))
    reps = [it for it in its if it[0] in ("push", "pull") and it[1][0] in ("req", "resp") and it[1][1] == 3
            and it[1][3] in ((b"a",), (b"ok",)) and it[1][4] in ("body", "stream", "stream_err", "stream_fail", "none")
            and (it[1][5] in (None, W.B17) or it[1][5] == [W.B1, W.B17] or (isinstance(it[1][5], tuple) and it[1][5][0] == [W.B1, W.B17]))
            and it[2] != b""] + [it for it in its if it[0] == "pull" and it[1][1] == 3 and it[1][3] == (b"ok",) and it[1][5] == W.B17]
    win = []
    for it in reps:
        _run, n, _t = W.make_run(it)
        for start in sorted({1, max(1, (n - 12) // 2), max(1, n - 12)}):
            win.append((it, start))
    wn = par.merge(par.pmap(_window, win, seed=ctx.seed))
    cheap = [it for it in its if (it[0] != "medium" and it[1][0] in ("chunked", "length"))
             or (it[0] != "medium" and it[1][1] < 3) or (it[0] == "medium" and it[2][0][0][1] < 3)]
    au = par.merge(par.pmap(_audit, [it for i, it in enumerate(cheap) if i % 25 == 0][:25] + reps[:2], seed=ctx.seed))
    vio = W.smallest_per_signature(acc.violations + bf.violations + wn.violations)
    for sig, d in vio:
        if sig.startswith("harness:"):
            raise HarnessError("%s %r" % (sig, d))
        ctx.violation(sig, d)
    ctx.assumptions.append("a client never has bytes of a following response in flight (lock step), so for the pulling "
                           "client-side readers 'any size' reads are explored on the response alone; the preservation of "
                           "following bytes on the client side is checked with count-respecting reads in C30")
    ctx.assumptions.append("v1/v2 failure responses carry no body; v1 success/failure is told from the first argument (the v1 error code list)")
    ctx.assumptions.append("state key abstracts the decoder's fragment list to (length of first fragment, one/several, joined bytes); "
                           "validated against unabstracted brute force")
    cov = {
        "evaluations": acc.n + bf.n + wn.n,
        "traces_validated_against_impl": acc.n + bf.n + wn.n,
        "states": acc.counters.get("states", 0),
        "transitions": acc.counters.get("transitions", 0),
        "messages_explored": acc.counters.get("items", 0),
        "message_bytes": acc.counters.get("bytes", 0),
        "per_harness": {k[6:]: v for k, v in sorted(acc.counters.items()) if k.startswith("items:")},
        "executions_per_harness": {k[6:]: v for k, v in sorted(acc.counters.items()) if k.startswith("execs:")},
        "brute_force_messages": bf.counters.get("bf_items", 0),
        "brute_force_executions": bf.n,
        "windowed_brute_force_items": wn.counters.get("window_items", 0),
        "windowed_brute_force_executions": wn.n,
        "search_audits": au.n,
        "v3_client_decoder_items": acc.counters.get("v3_client_items", 0),
        "v3_client_decoder_items_with_a_read_boundary_at_each_of_the_23_positions_inside_the_version_marker":
            acc.counters.get("v3_client_items_cut_at_every_marker_byte", 0),
        "distinct_nontrivial": len(acc.nontrivial),
        "distinct_outcome_classes": len(acc.outcomes),
        "rule": "one case = one (harness, message, following bytes); non-trivial = at least 2 bytes on the wire (more than one segmentation)",
        "violations_raw": acc.counters.get("violations_raw", 0),
        "samples": acc.samples[:4],
        "exhaustive": not acc.counters.get("capped"),
    }
    return cov


def replay(ctx, data):
    return not W.replay_detail(data["first"])
