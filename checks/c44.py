"""C44 - fast-export followed by fast-import preserves history.

Bounded exhaustive enumeration of native histories: every connected DAG with
<= n revisions (ordered parents, <= 2) x every assignment of a whole-tree state
(checks/_hist.STATES: renames, directory renames, deletions, symlinks, exec
flips, kind changes, empty/binary files, merges) to every revision, every
revision tagged, with per-revision messages (multi-line, non-ASCII),
committers and timezones.  Each history is exported with the real
BzrFastExporter (plain format and the default rich format), the stream is parsed
and imported with the real GenericProcessor into an empty shared repository on
/dev/shm, and the imported branch is compared with the source through the
mark <-> revision-id maps of exporter and importer: number of revisions,
left-hand history (and revno), every revision's tree (paths, contents, exec
bits, symlink targets; recursively empty directories excepted), message,
committer, timestamp, timezone and the tag dictionary.
"""
import os
import shutil
import tempfile
import traceback
from io import BytesIO

from mc import boot, gen, par
from mc.evidence import HarnessError
from checks import _hist

ID = "C44"
LEVEL = "exploration"
TECHNIQUE = "exhaustive small-scope history enumeration, real exporter -> stream -> real importer, field-by-field comparison through the mark maps"

MESSAGES = ("first commit", "two\nlines\n", "caf\xe9 €", "trailing space ")
COMMITTERS = ("Committer <c@example.com>", "Joe Random <joe@example.org>", "J\xfcrgen <j@example.com>")
TIMEZONES = (0, 3600, -18000, 19800)
REF = b"refs/heads/master"


def sig_exc(stage, e):
    fn = "?"
    for fr in traceback.extract_tb(e.__traceback__):
        if fr.filename.startswith(boot.REPO + "/"):
            fn = "%s.%s" % (os.path.basename(fr.filename)[:-3], fr.name)
    return "%s:%s:%s" % (stage, type(e).__name__, fn)


def delta_features(old_spec, new_spec):
    """Abstract features of a tree change that the fast-import stream has to express specially."""
    out = set()
    old = {e.fid: (p, e.kind) for p, e in old_spec.items()}
    for p, e in new_spec.items():
        if e.fid in old:
            op, ok = old[e.fid]
            if ok != e.kind:
                out.add("kind-change")
            elif e.kind == "directory" and op != p:
                out.add("dir-rename")
    # a path that changes kind although the file ids differ (file 'dd' replaced by directory 'dd')
    oldp = {p: e.kind for p, e in old_spec.items()}
    for p, e in new_spec.items():
        if p in oldp and oldp[p] != e.kind:
            out.add("kind-change")
    return out


def qual(features):
    """One qualifier: the most specific feature present (kind-change > multi-root > dir-rename)."""
    for f in ("kind-change", "multi-root", "dir-rename"):
        if f in features:
            return ":" + f
    return ""


def check_history(dag, assign, acc, base_dir, modes=("plain", "rich"), obs=None):
    from breezy.branch import Branch
    from breezy.plugins.fastimport import exporter
    from breezy.plugins.fastimport.helpers import open_destination_directory
    from breezy.plugins.fastimport.processors import generic_processor
    from fastimport import parser
    from mc import world as mw
    from mc.vfs import new_store
    hist = {"dag": [list(p) for p in dag], "states": list(assign)}
    n = len(dag)
    store = new_store()
    try:
        src = mw.make_branch(store.transport("src"), "2a")
        ids = _hist.commit_history(
            src, dag, assign,
            messages={i: MESSAGES[i % len(MESSAGES)] for i in range(n)},
            committers={i: COMMITTERS[i % len(COMMITTERS)] for i in range(n)},
            timezones={i: TIMEZONES[i % len(TIMEZONES)] for i in range(n)})
        for i, rid in enumerate(ids):
            src.tags.set_tag("t%d" % i, rid)
        srepo = src.repository
        with srepo.lock_read():
            srevs = {rid: srepo.get_revision(rid) for rid in ids}
            strees = {rid: _hist.tree_listing(srepo.revision_tree(rid), drop_empty_dirs=True) for rid in ids}
        lefthand = [ids[i] for i in gen.lefthand(dag, n - 1)]
        feats = [delta_features(_hist.STATES[assign[dag[i][0]]], _hist.STATES[assign[i]]) if dag[i] else set()
                 for i in range(n)]
        all_feats = set().union(*feats)
        if sum(1 for ps in dag if not ps) > 1:
            all_feats.add("multi-root")
        for mode in modes:
            d = dict(hist, mode=mode)
            sfx = ":" + mode
            acc.n += 1
            if _hist.nontrivial_history(dag, assign):
                acc.nt((dag, assign, mode))
            out = BytesIO()
            try:
                ex = exporter.BzrFastExporter(src, outf=out, ref=REF, checkpoint=-1, plain_format=(mode == "plain"))
                ex.run()
            except Exception as e:  # noqa
                acc.violation(sig_exc("export", e) + sfx, dict(d, error=str(e)[:300]))
                continue
            stream = out.getvalue()
            dest = tempfile.mkdtemp(prefix="imp-", dir=base_dir)
            try:
                try:
                    control = open_destination_directory(dest, format=None)
                    proc = generic_processor.GenericProcessor(bzrdir=control, params={b"mode": "default"}, verbose=False)
                    proc.process(parser.ImportParser(BytesIO(stream)).iter_commands)
                except Exception as e:  # noqa
                    acc.violation(sig_exc("import", e) + sfx + qual(all_feats), dict(d, error=str(e)[:300]))
                    continue
                mark_of = dict(ex.revid_to_mark)           # source revid -> mark
                marks = dict(proc.cache_mgr.marks)           # mark -> new revid
                newid = {}
                for rid in ids:
                    m = mark_of.get(rid)
                    if m is None or (m not in marks and m.lstrip(b":") not in marks):
                        acc.violation("marks:revision-not-mapped" + sfx, dict(d, rev=ids.index(rid)))
                        continue
                    newid[rid] = marks.get(m, marks.get(m.lstrip(b":")))
                try:
                    nb = Branch.open(os.path.join(dest, "trunk"))
                except Exception as e:  # noqa
                    acc.violation(sig_exc("open-imported-branch", e) + sfx, dict(d, error=str(e)[:300], listing=sorted(os.listdir(dest))))
                    continue
                nrepo = nb.repository
                with nrepo.lock_read():
                    acc.count("imports_compared")
                    nall = set(nrepo.all_revision_ids())
                    if len(nall) != n:
                        acc.violation("shape:revision-count-differs" + sfx, dict(d, source=n, imported=len(nall)))
                    # left-hand history
                    graph = nrepo.get_graph()
                    got_lh = list(graph.iter_lefthand_ancestry(nb.last_revision(), [b"null:"]))[::-1]
                    want_lh = [newid.get(r) for r in lefthand]
                    if got_lh != want_lh:
                        acc.violation("shape:left-hand-history-differs" + sfx,
                                      dict(d, want=[ids.index(r) for r in lefthand], got_len=len(got_lh)))
                    elif nb.revno() != len(lefthand):
                        acc.violation("shape:revno-differs" + sfx, dict(d, want=len(lefthand), got=nb.revno()))
                    pm = graph.get_parent_map(nall)
                    tainted = False
                    for i, rid in enumerate(ids):
                        if rid not in newid:
                            continue
                        nr = newid[rid]
                        if nr not in nall:
                            acc.violation("shape:mapped-revision-missing" + sfx, dict(d, rev=i))
                            continue
                        want_parents = tuple(newid.get(ids[p]) for p in dag[i])
                        got_parents = tuple(p for p in pm.get(nr, ()) if p != b"null:")
                        if want_parents[:1] != got_parents[:1]:
                            what = "root-got-a-parent" if not want_parents else "parent-lost" if not got_parents else "other-parent"
                            acc.violation("shape:left-hand-parent-differs:%s%s" % (what, sfx), dict(d, rev=i))
                            tainted = True
                        elif want_parents != got_parents:
                            acc.count("merge_parents_differ" + sfx)
                        if tainted:
                            # the importer built this revision on another basis: its tree is a consequence
                            acc.count("tree_comparisons_skipped_after_shape_difference")
                            continue
                        got = _hist.tree_listing(nrepo.revision_tree(nr), drop_empty_dirs=True)
                        acc.count("tree_comparisons")
                        if got != strees[rid]:
                            p = sorted(q for q in set(got) | set(strees[rid]) if got.get(q) != strees[rid].get(q))[0]
                            w, g = strees[rid].get(p), got.get(p)
                            what = "extra-path" if w is None else "missing-path" if g is None else \
                                "kind" if w[0] != g[0] else "exec-bit" if w[0] == "file" and w[1] == g[1] else "content"
                            acc.violation("tree:%s%s%s" % (what, sfx, qual(feats[i])), dict(d, rev=i, path=p, want=w, got=g))
                            tainted = True      # descendants are built on this tree
                        sr, r = srevs[rid], nrepo.get_revision(nr)
                        for field, a, b in (("message", sr.message, r.message), ("committer", sr.committer, r.committer),
                                            ("timestamp", float(sr.timestamp), float(r.timestamp)),
                                            ("timezone", sr.timezone, r.timezone)):
                            if a != b:
                                acc.violation("metadata:%s-differs%s" % (field, sfx), dict(d, rev=i, want=a, got=b))
                        if obs is not None:
                            obs.append((mode, i, sorted(got), r.message, r.committer, r.timestamp, r.timezone))
                    want_tags = {"t%d" % i: newid.get(rid) for i, rid in enumerate(ids)}
                    got_tags = nb.tags.get_tag_dict()
                    if got_tags != want_tags:
                        missing = sorted(set(want_tags) - set(got_tags))
                        extra = sorted(set(got_tags) - set(want_tags))
                        what = "missing" if missing else "extra" if extra else "wrong-target"
                        acc.violation("tags:%s%s" % (what, sfx), dict(d, missing=missing, extra=extra))
                    acc.outcomes.add((mode, len(nall)))
            finally:
                shutil.rmtree(dest, ignore_errors=True)
    finally:
        store.close()


def _work(chunk):
    acc = par.Acc()
    base = boot.scratch("c44")
    for dag, assign in chunk:
        check_history(dag, assign, acc, base)
        acc.sample({"dag": [list(p) for p in dag], "states": list(assign)})
    shutil.rmtree(base, ignore_errors=True)
    return acc


def run(ctx):
    if ctx.thorough:
        items = _hist.histories(4, 7, nstates_for={4: 4})
        bound = "connected DAGs <= 3 revisions x 7 tree states, 4 revisions x 4 tree states"
    else:
        items = _hist.histories(3, 6)
        bound = "connected DAGs <= 3 revisions x 6 tree states"
    stride = int(os.environ.get("VERIF_DEV_STRIDE", "1") or 1)     # development aid only: every k-th history
    items = items[::stride]
    base = boot.scratch("c44a")
    for h in [h for h in items if len(h[0]) == 3][:3]:
        o1, o2 = [], []
        check_history(h[0], h[1], par.Acc(), base, obs=o1)
        check_history(h[0], h[1], par.Acc(), base, obs=o2)
        if o1 != o2:
            raise HarnessError("determinism audit failed for %r" % (h,))
    acc = par.merge(par.pmap(_work, items, seed=ctx.seed))

    def size(d):
        return (len(d.get("dag", [])), sum(len(p) for p in d.get("dag", [])), sum(d.get("states", [])))
    best = {}
    for sig, d in acc.violations:
        if sig not in best or size(d) < size(best[sig]):
            best[sig] = d
    for sig in sorted(best):
        ctx.violation(sig, best[sig])
    ctx.assumptions.append("every revision carries a tag t<i>; message/committer/timezone of revision i are taken cyclically from "
                           "fixed lists (multi-line, non-ASCII, trailing space; +0100, -0500, +0530)")
    ctx.assumptions.append("recursively empty directories are excepted from the tree comparison in both formats (the plain "
                           "fast-import format cannot carry them); non-left-hand parents are counted, not required")
    ctx.assumptions.append("the python-fastimport parser/commands package is trusted environment")
    return {
        "evaluations": acc.n,
        "distinct_nontrivial": len(acc.nontrivial),
        "rule": "every connected DAG x tree-state assignment x {plain, rich}; non-trivial = some revision differs from its "
                "left-hand parent or is a merge",
        "bound": bound,
        "counters": acc.counters,
        "outcomes": sorted(str(o) for o in acc.outcomes),
        "samples": acc.samples[:3],
        "exhaustive": stride == 1,
        **({"capped": "VERIF_DEV_STRIDE=%d: every %d-th history only" % (stride, stride)} if stride > 1 else {}),
    }
