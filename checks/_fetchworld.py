"""Shared by C03 / C08: small declarative histories, their ancestor-closed subsets, and
observers (testaments, tree dumps, per-file graph, check() summary, local keys of a
stacked repository)."""
import itertools

from mc import gen

GHOST = b"ghost"
AID, BID, DID = b"a-id", b"b-id", b"d-id"


def tree_of(state, i=0):
    """Tree alphabet: 0 = {a:x}; 1 = {a:y, d/, d/b:z}; 2 = {a:<unique per revision>, d/}."""
    from mc import world as mw
    if state == 0:
        return {"a": mw.F(AID, b"x\n")}
    if state == 1:
        return {"a": mw.F(AID, b"y\n"), "d": mw.D(DID), "d/b": mw.F(BID, b"z\n", True)}
    if state == 2:
        return {"a": mw.F(AID, b"rev %d\n" % i), "d": mw.D(DID)}
    raise ValueError(state)


class History:
    """dag: tuple of parent-index tuples; states: tree state per node; ghost_at: node that gets
    an extra ghost right-hand parent (or None)."""

    def __init__(self, dag, states, ghost_at=None):
        self.dag = tuple(tuple(p) for p in dag)
        self.states = tuple(states)
        self.ghost_at = ghost_at
        self.n = len(self.dag)

    def key(self):
        return (self.dag, self.states, self.ghost_at)

    def describe(self):
        return {"dag": [list(p) for p in self.dag], "trees": list(self.states), "ghost_parent_at": self.ghost_at}

    def revid(self, i):
        return b"r%d" % i

    def parents(self, i):
        ps = [self.revid(p) for p in self.dag[i]]
        if self.ghost_at == i:
            ps.append(GHOST)
        return ps

    def revs(self, nodes=None):
        from mc import world as mw
        return [mw.Rev(self.revid(i), self.parents(i), tree_of(self.states[i], i))
                for i in (range(self.n) if nodes is None else nodes)]

    def ancestors(self, i):
        return gen.dag_ancestors(self.dag, i)

    def closed_subsets(self):
        """All ancestor-closed subsets of the nodes (as frozensets), smallest first."""
        out = []
        for k in range(self.n + 1):
            for c in itertools.combinations(range(self.n), k):
                s = set(c)
                if all(set(self.dag[i]) <= s for i in s):
                    out.append(frozenset(s))
        return out

    def source_splits(self):
        """Every way to split the history between a fallback (an ancestor-closed set) and a repository stacked on it."""
        return self.closed_subsets()

    def heads(self, nodes):
        return sorted(gen.heads(self.dag, nodes))

    def has_merge(self):
        return any(len(p) == 2 for p in self.dag)


def histories(n, states=(0, 1), ghosts=True, assignments="all"):
    """Every DAG with exactly n revisions x every tree assignment (assignments="all") or x the
    alternating assignments 0101.. / 1010.. (assignments="alt"); plus, for the alternating
    assignment 0101.., every placement of one ghost right-hand parent on a single-parent revision."""
    out = []
    alt = tuple(states[i % len(states)] for i in range(n))
    alt2 = tuple(states[(i + 1) % len(states)] for i in range(n))
    for dag in gen.dags(n):
        if assignments == "all":
            for sts in itertools.product(states, repeat=n):
                out.append(History(dag, sts))
        else:
            out.append(History(dag, alt))
            out.append(History(dag, alt2))
        if ghosts:
            for k in range(n):
                if len(dag[k]) == 1:
                    out.append(History(dag, alt, ghost_at=k))
    return out


def build(branch, hist, nodes=None):
    """Commit the history (or the given nodes, in order) with the real commit code."""
    from mc import world as mw
    for i in (range(hist.n) if nodes is None else nodes):
        mw.commit_spec(branch, hist.revid(i), hist.parents(i), tree_of(hist.states[i], i),
                       timestamp=1_000_000_000.0 + i, allow_ghost=False)
    return branch


# ---- observers ------------------------------------------------------------------

def rev_facts(repo, revid, root_keys=True):
    """Everything the statement lists for one revision: metadata, tree content with last-changed
    revisions, per-file parents of the texts it introduces, the three testaments."""
    from breezy.bzr.testament import StrictTestament, StrictTestament3, Testament
    from mc import world as mw
    rev = repo.get_revision(revid)
    tree = repo.revision_tree(revid)
    dump = mw.dump_tree(tree, with_ids=True, with_revision=True)
    keys = [(r[4], r[5]) for r in dump if r[5] == revid and (root_keys or r[0] != "")]
    pm = repo.texts.get_parent_map(keys)
    return {
        "meta": (rev.revision_id, tuple(rev.parent_ids), rev.committer, rev.timestamp, rev.timezone, rev.message,
                 tuple(sorted(rev.properties.items())), rev.inventory_sha1 if False else None),
        "tree": [r for r in dump if r[0] != ""],
        "root": [r for r in dump if r[0] == ""],
        "text_parents": sorted((k, tuple(sorted(pm[k])) if k in pm else "MISSING") for k in keys if k[0] != mw.ROOT_ID),
        "root_text_parents": sorted((k, tuple(sorted(pm[k])) if k in pm else "MISSING") for k in keys if k[0] == mw.ROOT_ID),
        "testament": Testament.from_revision(repo, revid).as_short_text(),
        "strict": StrictTestament.from_revision(repo, revid).as_short_text(),
        "strict3": StrictTestament3.from_revision(repo, revid).as_short_text(),
    }


def check_summary(repo):
    """Problems reported by Repository.check(), as a sorted list of hashable items."""
    c = repo.check()
    out = []
    for x in c.inconsistent_parents:
        out.append(("inconsistent-parents",) + tuple(x))
    for x in c.unreferenced_versions:
        out.append(("unreferenced-version",) + tuple(x))
    for x in c._report_items:
        out.append(("report", str(x)))
    for x in c.ghosts:
        out.append(("ghost", x))
    for k, v in c.missing_parent_links.items():
        out.append(("missing-parent-link", k, tuple(sorted(v))))
    if c.missing_revision_cnt:
        out.append(("missing-revisions", c.missing_revision_cnt))
    if c.missing_inventory_sha_cnt:
        out.append(("missing-inventory-sha", c.missing_inventory_sha_cnt))
    for x in (c.revs_with_bad_parents_in_index or ()):
        out.append(("bad-index-parents",) + tuple(x))
    return sorted(out, key=repr)


def innermost_repo_frame(exc):
    import traceback
    tb = traceback.extract_tb(exc.__traceback__)
    inner = [f for f in tb if "/breezy/" in f.filename]
    if not inner:
        return "?"
    f = inner[-1]
    return "%s:%s" % (f.filename.split("/breezy/", 1)[1], f.name)


def is_lock_path(path):
    parts = path.strip("/").split("/")
    return "lock" in parts or any(p.endswith("-lock") for p in parts)


def mutating_outside_locks(ops):
    return [op.brief() for op in ops if op.mutating and not is_lock_path(op.path)
            and not (op.path2 and is_lock_path(op.path2))]
