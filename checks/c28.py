"""C28 - Reentrant locking acquires and releases the physical lock exactly once.

Explicit-state search: every sequence of length <= L (L = 6 quick / 8 thorough for
CountedLock, LockableFiles and the working tree, 5 / 7 for repositories and branches; every
shorter sequence is checked as a prefix) over {R lock_read, W lock_write, Wg lock_write(good
token), Wb lock_write(bad token), U unlock} is executed on fresh real objects:
breezy.counted_lock.CountedLock over a recording non-reentrant fake real lock;
LockableFiles with a real LockDir on a vfs store; a knit repository (control-files
locking); a 2a pack repository; a 2a branch; and a dirstate working tree (alphabet R, W,
T lock_tree_write, U).  Token-capable subjects are also run with the physical lock held by
another LockDir object for the whole run ("ext": the good token adopts that lock).  A
second search drives tree, tree.branch and branch.repository of ONE object graph
together (9 operations, depth 4 / 5).  The reference model is (mode, count[, adopted]);
after every step the oracle compares: outcome (accepted / documented refusal), the
successful acquire/release calls made on the underlying real lock (exactly one acquire at
0->1, exactly one release at 1->0, none otherwise), presence of `lock/held` read from the
raw store / disk, is_locked(), get_physical_lock_status(), is_write_locked(), lock state of
the parts, no leftover pending/releasing directories.
"""
import itertools

from mc import par
from mc.evidence import HarnessError

from . import _c28_subjects as S

ID = "C28"
LEVEL = "model_checking"
TECHNIQUE = "explicit-state search: all lock/unlock sequences up to a depth on real lockable objects against a (mode, count) reference model"

_W = {}


def world():
    if "w" not in _W:
        _W["w"] = S.World()
    return _W["w"]


# ---- reference model (from the property statement) ---------------------------

def model_next(subj, st, op):
    """Allowed (kind, next_state, expected successful real-lock events) for op in state st."""
    mode, count, adopted = st
    same = ("refused", st, ())
    if op == "R":
        if count == 0:
            return [("ok", ("r", 1, False), ("lock_read",))]
        return [("ok", (mode, count + 1, adopted), ())]
    if op == "U":
        if count == 0:
            return [same]
        if count == 1:
            ev = ("unlock",) if (mode != "w" or subj.write_is_physical) else ()
            return [("ok", (None, 0, False), ev)]
        return [("ok", (mode, count - 1, adopted), ())]
    if op == "T":    # lock_tree_write: tree control files for write, branch for read
        if count == 0:
            return [("ok", ("tw", 1, False), ("lock_write",))]
        if mode == "r":
            return [same]
        return [("ok", (mode, count + 1, adopted), ())]
    # write locks
    if mode in ("r", "tw"):
        # "a write lock requested while only read-locked is refused without changing the lock state"
        # (tw: the branch of the tree is only read-locked)
        return [same]
    if mode == "w":
        if op == "W":
            return [("ok", (mode, count + 1, adopted), ())]
        # token given while write-locked: accepted as a reentrant lock or refused (mismatch);
        # the statement does not say which tokens must match
        return [("ok", (mode, count + 1, adopted), ()), same]
    # count == 0
    first = ("ok", ("w", 1, False), ("lock_write",) if subj.write_is_physical else ())
    if op == "W":
        if subj.ext and subj.write_is_physical:
            return [same]           # somebody else holds the physical lock
        return [first]
    if subj.ext:
        # adoption of the lock held elsewhere: one call on the real lock, physical state untouched
        return [("ok", ("w", 1, True), ("lock_write",)), same]
    return [first, same]


def expected_obs(subj, st):
    mode, count, adopted = st
    e = {"is_locked": count > 0}
    if subj.name == "working_tree":
        e["physical"] = mode in ("tw", "w")
        e["branch_physical"] = mode == "w"
        e["branch_mode"] = {None: None, "r": "r", "tw": "r", "w": "w"}[mode]
        e["aux_branch_locked"] = count > 0
        e["aux_repo_locked"] = count > 0
        e["dirstate_locked"] = count > 0
    elif subj.ext:
        e["physical"] = True
        e["ext_nonce_intact"] = True
    elif not subj.write_is_physical:
        e["physical"] = False
    else:
        e["physical"] = (mode == "w" and not adopted)
    e["api_physical"] = e["physical"]
    if subj.name in ("knit_repository", "pack_repository"):
        e["is_write_locked"] = mode == "w"
    if subj.name == "branch":
        e["aux_repo_locked"] = count > 0
        e["peek_mode"] = mode
    if subj.name == "counted_lock":
        e["anomalies"] = ()
        e["real_held"] = None if count == 0 else ("r" if mode == "r" else "w")
    return e


def check_obs(subj, st, obs):
    exp = expected_obs(subj, st)
    for k, v in exp.items():
        if obs.get(k) != v:
            return "%s=%r-expected-%r" % (k, obs.get(k), v)
    for k, v in obs.items():
        if k.startswith("other:") and v:
            return "unrelated-physical-lock-held:%s" % k[6:]
    if obs.get("junk"):
        return "leftover-in-lock-directory"
    return None


def run_sequence(subj, seq, acc, drain=True):
    """Execute one sequence on a fresh object; returns (failure or None)."""
    subj.fresh()
    st = (None, 0, False)
    bad = check_obs(subj, st, subj.observe())
    if bad:
        subj.cleanup()
        raise HarnessError("fresh %s not clean: %s" % (subj.name, bad))
    steps = list(seq)
    i = 0
    fail = None
    states = acc.states
    trans = acc.trans
    states.add((subj.name, subj.ext, st))
    while i < len(steps) or (drain and st[1] > 0):
        draining = i >= len(steps)
        op = steps[i] if not draining else "U"
        i += 1
        del subj.events[:]
        kind, val = subj.do(op)
        evs = tuple(n for n, r in subj.events if r == "ok")
        allowed = model_next(subj, st, op)
        if kind == "crash":
            fail = ("%s:%s" % (op, val), st)
            break
        match = [a for a in allowed if a[0] == kind]
        if not match:
            what = "accepted-but-must-be-refused" if kind == "ok" else "refused-%s-but-must-be-accepted" % val
            fail = ("%s@%s:%s" % (op, _cls(st), what), st)
            break
        _, nst, exp_ev = match[0]
        if evs != exp_ev:
            fail = ("%s@%s:real-lock-calls-%s-expected-%s" % (op, _cls(st), "+".join(evs) or "none",
                                                              "+".join(exp_ev) or "none"), st)
            break
        obs = subj.observe()
        bad = check_obs(subj, nst, obs)
        if bad:
            fail = ("%s@%s:%s" % (op, _cls(st), bad), st)
            break
        trans.add((subj.name, subj.ext, st, op, kind if kind == "ok" else val))
        acc.outcomes.add((subj.name, op, kind if kind == "ok" else val))
        st = nst
        states.add((subj.name, subj.ext, st))
        acc.count("steps")
    if fail is not None or st[1] > 0:
        subj.cleanup()
    if fail is not None:
        return fail[0], steps[:i], fail[1]
    return None


def _cls(st):
    mode, count, adopted = st
    if count == 0:
        return "unlocked"
    return "%s%s%s" % (mode, "1" if count == 1 else "n", "-adopted" if adopted else "")


class Acc(par.Acc):
    def __init__(self):
        super().__init__()
        self.states = set()
        self.trans = set()
        self.best = {}

    def merge(self, other):
        super().merge(other)
        self.states |= getattr(other, "states", set())
        self.trans |= getattr(other, "trans", set())
        for sig, d in getattr(other, "best", {}).items():
            self.keep(sig, d)
        return self

    def keep(self, sig, d):
        k = (len(d["sequence"]), d["sequence"])
        if sig not in self.best or k < (len(self.best[sig]["sequence"]), self.best[sig]["sequence"]):
            self.best[sig] = d


_SUBJ = {}


def subject(name, ext):
    key = (name, ext)
    if key not in _SUBJ:
        _SUBJ[key] = S.SUBJECTS[name](world(), ext=ext)
    return _SUBJ[key]


def _work(chunk):
    acc = Acc()
    for name, ext, L, prefix in chunk:
        subj = subject(name, ext)
        for suffix in itertools.product(subj.alphabet, repeat=L - len(prefix)):
            seq = tuple(prefix) + suffix
            acc.n += 1
            r = run_sequence(subj, seq, acc)
            if _nontrivial(seq):
                acc.nt((name, ext, seq))
            if r is not None:
                what, upto, st = r
                sig = "%s%s:%s" % (name, "/ext" if ext else "", what)
                acc.count("violations_raw")
                acc.keep(sig, {"subject": name, "lock_held_elsewhere": ext, "sequence": list(upto),
                               "model_state_before_last_op": list(st)})
        acc.sample({"subject": name, "ext": ext, "sequence": list(tuple(prefix) + (subj.alphabet[0],) * (L - len(prefix)))})
    return acc


def _nontrivial(seq):
    """reaches count >= 2 or contains an op that the model refuses (approximated syntactically:
    an unlock with nothing to unlock, or a write request after a read lock)."""
    depth = 0
    maxd = 0
    refused = False
    for op in seq:
        if op == "U":
            if depth == 0:
                refused = True
            else:
                depth -= 1
        else:
            depth += 1
            maxd = max(maxd, depth)
    return maxd >= 2 or refused


# ---- coupled search: tree + its branch + its repository as one object graph -----------

COUPLED_OPS = tuple((o, m) for o in ("tree", "branch", "repo") for m in ("R", "W", "U"))


class Coupled:
    """tree / tree.branch / tree.branch.repository driven together.

    Model: every object has its own (mode, count); a tree lock holds one branch lock per
    tree lock call, a branch holds one repository lock while it is locked at all.  Oracle per
    the statement, per object: is_locked() <=> the object's own count > 0 or a holder above
    it holds it; a request refused for an object changes nothing on any object; the physical
    lock (lock/held on disk) of an object exists exactly while its write lock is held."""

    def __init__(self, w, fmt):
        self.w = w
        self.fmt = fmt
        self.dir = w.tree_dir if fmt == "2a" else self._knit_tree(fmt)

    def _knit_tree(self, fmt):
        import os
        from mc import wt
        if "knit_tree" not in self.w.cache:
            tree = wt.make_tree("bzr", fmt=fmt)
            with open(os.path.join(tree.basedir, "a"), "wb") as f:
                f.write(b"x\n")
            tree.add(["a"], ids=[b"a-id"])
            tree.commit("c", rev_id=b"t0", timestamp=1e9, timezone=0, committer="C <c@example.com>")
            self.w.cache["knit_tree"] = tree.basedir
        return self.w.cache["knit_tree"]

    def fresh(self):
        from breezy.controldir import ControlDir
        from breezy.transport import get_transport_from_path
        if getattr(self, "_t", None) is None:
            self._t = get_transport_from_path(self.dir)
        self.tree = ControlDir.open_from_transport(self._t).open_workingtree()
        self.objs = {"tree": self.tree, "branch": self.tree.branch, "repo": self.tree.branch.repository}

    def held(self, rel):
        import os
        return os.path.isdir(os.path.join(self.dir, ".bzr", rel, "lock", "held"))

    def observe(self):
        return {
            "tree_locked": bool(self.tree.is_locked()),
            "branch_locked": bool(self.tree.branch.is_locked()),
            "repo_locked": bool(self.tree.branch.repository.is_locked()),
            "repo_write_locked": bool(self.tree.branch.repository.is_write_locked()),
            "branch_mode": self.tree.branch.peek_lock_mode(),
            "tree_physical": self.held("checkout"),
            "branch_physical": self.held("branch"),
            "repo_physical": self.held("repository"),
            # the documented counters (LockableFiles ":ivar _lock_count"), so that a hidden change of a
            # hold count is attributed to the step that caused it
            "tree_count": self.tree._control_files._lock_count,
            "branch_count": self.tree.branch.control_files._lock_count,
            "repo_count": (getattr(self.tree.branch.repository, "_write_lock_count", 0)
                           or self.tree.branch.repository.control_files._lock_count),
        }

    def do(self, obj, m):
        o = self.objs[obj]
        fn = {"R": o.lock_read, "W": o.lock_write, "U": o.unlock}[m]
        return S.classify(fn)

    def cleanup(self):
        import os
        import shutil
        for rel in ("checkout", "branch", "repository"):
            shutil.rmtree(os.path.join(self.dir, ".bzr", rel, "lock", "held"), ignore_errors=True)
        d = getattr(self.tree, "_dirstate", None)
        if d is not None and d._lock_token:
            try:
                d.unlock()
            except Exception:
                pass


class CModel:
    """Counters: direct holds per object; mode of each object fixed by its first (outermost) hold."""

    def __init__(self, repo_physical):
        self.repo_physical = repo_physical
        self.t = [None, 0]      # tree: mode, count (each tree lock also holds the branch once)
        self.b = [None, 0]      # branch: total count incl. holds by the tree
        self.r = [None, 0]      # repo: total count incl. one hold by the branch while branch count > 0

    def key(self):
        return (tuple(self.t), tuple(self.b), tuple(self.r))

    def copy(self):
        c = CModel(self.repo_physical)
        c.t, c.b, c.r = list(self.t), list(self.b), list(self.r)
        return c

    # each returns True (accepted) / False (refused, nothing changed)
    def repo(self, m):
        r = self.r
        if m == "U":
            if r[1] == 0:
                return False
            r[1] -= 1
            if r[1] == 0:
                r[0] = None
            return True
        if r[1] == 0:
            r[0] = "r" if m == "R" else "w"
            r[1] = 1
            return True
        if m == "W" and r[0] == "r":
            return False
        r[1] += 1
        return True

    def branch(self, m):
        b = self.b
        if m == "U":
            if b[1] == 0:
                return False
            b[1] -= 1
            if b[1] == 0:
                b[0] = None
                self.repo("U")
            return True
        if b[1] == 0:
            if not self.repo(m):
                return False
            b[0] = "r" if m == "R" else "w"
            b[1] = 1
            return True
        if m == "W" and b[0] == "r":
            return False
        b[1] += 1
        return True

    def tree(self, m):
        t = self.t
        if m == "U":
            if t[1] == 0:
                return False
            t[1] -= 1
            if t[1] == 0:
                t[0] = None
            self.branch("U")
            return True
        if t[1] > 0 and m == "W" and t[0] == "r":
            return False
        if not self.branch(m):
            return False
        if t[1] == 0:
            t[0] = "r" if m == "R" else "w"
        t[1] += 1
        return True

    def expected(self):
        return {
            "tree_locked": self.t[1] > 0,
            "branch_locked": self.b[1] > 0,
            "repo_locked": self.r[1] > 0,
            "repo_write_locked": self.r[0] == "w",
            "branch_mode": self.b[0],
            "tree_physical": self.t[0] == "w",
            "branch_physical": self.b[0] == "w",
            "repo_physical": self.r[0] == "w" and self.repo_physical,
            "tree_count": self.t[1],
            "branch_count": self.b[1],
            "repo_count": self.r[1],
        }


def run_coupled(c, seq, acc):
    c.fresh()
    m = CModel(repo_physical=(c.fmt != "2a"))
    direct = {"tree": 0, "branch": 0, "repo": 0}
    total = {"tree": lambda: m.t[1], "branch": lambda: m.b[1], "repo": lambda: m.r[1]}
    fail = None
    used = 0
    last_refused = None
    acc.states.add(("coupled", c.fmt, m.key()))
    for obj, op in seq:
        if op == "U" and direct[obj] == 0 and total[obj]() > 0:
            # the caller would release a hold that belongs to the containing object: the part
            # cannot tell, the statement does not cover it -> outside the explored space
            acc.count("coupled_pruned")
            break
        used += 1
        before = m.key()
        trial = m.copy()
        accepted = getattr(trial, obj)(op)
        kind, val = c.do(obj, op)
        if kind == "crash":
            fail = ("%s.%s:%s" % (obj, op, val), {})
            break
        if accepted != (kind == "ok"):
            fail = ("%s.%s:%s" % (obj, op, "accepted-but-must-be-refused" if kind == "ok"
                                  else "refused-%s-but-must-be-accepted" % val), {})
            break
        if accepted:
            m = trial
            direct[obj] += -1 if op == "U" else 1
        else:
            last_refused = "%s.%s(refused-%s)" % (obj, op, val)
        obs = c.observe()
        exp = m.expected()
        diff = sorted(k for k in exp if exp[k] != obs[k])
        if diff and not accepted and not any(k.startswith(obj) for k in diff):
            fail = ("%s:changes-lock-state-of-part" % last_refused, {"observed": obs, "expected": exp})
            break
        if diff:
            k = diff[0]
            fail = ("%s.%s%s:%s=%r-expected-%r" % (obj, op, "" if accepted else "(refused-%s)" % val, k, obs[k], exp[k]),
                    {"observed": obs, "expected": exp})
            break
        acc.trans.add(("coupled", c.fmt, before, obj, op, kind if kind == "ok" else val))
        acc.states.add(("coupled", c.fmt, m.key()))
        acc.count("coupled_steps")
    # drain: every caller releases what it took, outermost object first
    if fail is None:
        for obj in ("tree", "branch", "repo"):
            while direct[obj] > 0:
                getattr(m, obj)("U")
                direct[obj] -= 1
                kind, val = c.do(obj, "U")
                if kind != "ok":
                    if last_refused:
                        fail = ("%s:changes-lock-state-of-part" % last_refused,
                                {"note": "the later matching %s.unlock() was refused with %s" % (obj, val)})
                    else:
                        fail = ("%s.U(drain):%s" % (obj, val), {})
                    break
            if fail:
                break
        if fail is None:
            obs = c.observe()
            if any(obs[k] for k in obs):
                fail = ("drain:not-clean-%s" % sorted(k for k in obs if obs[k])[0], {"observed": obs})
    if fail is not None:
        c.cleanup()
        return fail[0], list(seq[:used]), fail[1]
    return None


_COUPLED = {}


def _work_coupled(chunk):
    acc = Acc()
    for fmt, L, prefix in chunk:
        if fmt not in _COUPLED:
            _COUPLED[fmt] = Coupled(world(), fmt)
        c = _COUPLED[fmt]
        for suffix in itertools.product(COUPLED_OPS, repeat=L - len(prefix)):
            seq = tuple(prefix) + suffix
            acc.n += 1
            if len({o for o, _ in seq}) >= 2:
                acc.nt(("coupled", fmt, seq))
            r = run_coupled(c, seq, acc)
            if r is not None:
                what, upto, extra = r
                sig = "coupled:%s" % what
                acc.count("violations_raw")
                d = {"format": fmt, "sequence": ["%s.%s" % x for x in upto]}
                d.update(extra)
                acc.keep(sig, d)
    return acc


PLAN = [
    # subject, ext, (quick depth, thorough depth)
    ("counted_lock", False, (6, 8)),
    ("counted_lock", True, (6, 8)),
    ("lockable_files", False, (6, 8)),
    ("lockable_files", True, (6, 8)),
    ("knit_repository", False, (5, 7)),
    ("knit_repository", True, (5, 7)),
    ("pack_repository", False, (5, 7)),
    ("branch", False, (5, 7)),
    ("branch", True, (5, 7)),
    ("working_tree", False, (6, 8)),
]


def run(ctx):
    items = []
    depths = {}
    for name, ext, (dq, dt) in PLAN:
        L = ctx.q(dq, dt)
        depths["%s%s" % (name, "/ext" if ext else "")] = L
        alpha = S.SUBJECTS[name].alphabet
        for prefix in itertools.product(alpha, repeat=min(3, L)):
            items.append((name, ext, L, prefix))
    # a fresh worker pool per slice: repositories opened by the library stay alive in reference cycles
    # through extension objects, so a long-lived worker would grow without bound
    acc = Acc()
    for lo in range(0, len(items), 160):
        for a in par.pmap(_work, items[lo:lo + 160], seed=ctx.seed, chunks_per_job=2):
            acc.merge(a)
    LC = ctx.q(4, 5)
    citems = [(fmt, LC, p) for fmt in ("2a", "dirstate-tags") for p in itertools.product(COUPLED_OPS, repeat=2)]
    acc2 = Acc()
    for a in par.pmap(_work_coupled, citems, seed=ctx.seed, chunks_per_job=8):
        acc2.merge(a)
    for a in (acc, acc2):
        for sig in sorted(a.best):
            ctx.violation(sig, a.best[sig])
    ctx.assumptions.append("LockDir read locks are documented fakes (no physical lock); pack repositories "
                           "documentedly take no physical lock in lock_write; lock_write(token) adopts a lock held elsewhere "
                           "without touching it; contention timeout set to 0")
    ctx.assumptions.append("token clauses accept both readings where the statement is silent: a token passed while "
                           "write-locked or unlocked may be accepted or refused (never while read-locked)")
    return {
        "evaluations": acc.n + acc2.n,
        "sequences_single_object": acc.n,
        "sequences_coupled": acc2.n,
        "coupled_sequences_cut_at_foreign_unlock": acc2.counters.get("coupled_pruned", 0),
        "steps_checked": acc.counters.get("steps", 0) + acc2.counters.get("coupled_steps", 0),
        "states": len(acc.states) + len(acc2.states),
        "transitions": len(acc.trans) + len(acc2.trans),
        "traces_validated_against_impl": acc.n + acc2.n,
        "distinct_nontrivial": len(acc.nontrivial) + len(acc2.nontrivial),
        "distinct_outcomes": len(acc.outcomes),
        "outcomes": sorted("%s:%s:%s" % o for o in acc.outcomes),
        "rule": "non-trivial = the sequence nests locks (count >= 2) or contains an unlock with nothing held; "
                "coupled: operations on at least two of tree/branch/repository",
        "depth": depths,
        "coupled_depth": LC,
        "samples": acc.samples[:3] + [{"coupled": ["tree.W", "branch.R", "repo.U", "tree.U"]}],
        "exhaustive": True,
    }


def replay(ctx, data):
    """Re-run the recorded sequence on fresh objects; True when the property holds."""
    d = data["first"]
    acc = Acc()
    if "subject" in d:
        return run_sequence(subject(d["subject"], bool(d["lock_held_elsewhere"])), tuple(d["sequence"]), acc) is None
    c = Coupled(world(), d["format"])
    return run_coupled(c, [tuple(x.split(".")) for x in d["sequence"]], acc) is None
