"""C09 - Working trees behave like an abstract versioned file system (bzr dirstate and git index trees).

Explicit-state search over operation sequences on REAL working trees on /dev/shm.
Alphabet over a bounded namespace (files a, b, d/a; directory d; contents x, y; variants with a
second directory e, a nested directory d/e, and on-disk kind changes): write(p,c), chmod(p),
mkdir(d), add(p), smart_add(.), remove(p) keep/force/default, unversion(p), rename_one(p,q),
move([p],d) (each also recorded after the fact: path moved on disk first, after=True or
auto-detected), commit, revert(), revert([p]), file<->directory kind change, re-open.  Events are
enabled by a boring reference model (dict path -> (identity, kind, content, exec), versioned
set, basis copy; git: no identities, directories implied by files); BFS from the empty tree and
from a populated committed tree, dedup on the canonical model state.  After EVERY transition
the real tree is compared with the model: all_versioned_paths / iter_entries_by_dir /
is_versioned / path2id, kind, get_file_text, is_executable, the basis tree, file identities
(bijection with model identities over tree and basis), the directory contents, and
iter_changes(basis) (with and without unversioned) against the model diff (git: as
add/remove/modify sets, rename pairing not required); then the tree is re-opened and the whole
observation must be identical.  Every transition is run on a copy of the state opened afresh
("each command a new process") and, for tree operations, once more inside ONE write lock whose
caches (all_versioned_paths, iter_entries_by_dir, list_files) were filled first, with the
comparison also made before the lock is released; representative histories, and all transitions up to a smaller
depth, are also run on one live object.  bzr and git are separate sub-runs with separate
signatures.
"""
import time

from mc import par
from mc.evidence import HarnessError

from . import _treestates as ts

def _cpu():
    import resource
    return round(sum(resource.getrusage(w).ru_utime + resource.getrusage(w).ru_stime
                     for w in (resource.RUSAGE_SELF, resource.RUSAGE_CHILDREN)), 1)


ID = "C09"
LEVEL = "model_checking"
TECHNIQUE = "explicit-state BFS over operation sequences on real working trees, step-by-step comparison with a reference model, dedup on canonical state"

FULL = ts.START_FULL
FULL3 = (("mkdir", "d"), ("mkdir", "d/e"), ("write", "d/e/a", b"x\n"), ("write", "d/a", b"x\n"),
         ("write", "a", b"x\n"), ("sadd",), ("commit",))

FULL4 = (("mkdir", "d"), ("write", "d/a", b"x\n"), ("mkdir", "e"), ("write", "a", b"x\n"), ("sadd",), ("commit",))

# (label, kinds, namespace, start history, mode, depth quick, depth thorough)
PLAN = [
    ("empty", ("bzr", "git"), ts.NS1, (), "fresh", 5, 6),
    ("full", ("bzr", "git"), ts.NS1, FULL, "fresh", 3, 4),
    ("two-dirs", ("bzr", "git"), ts.NS2, FULL, "fresh", 2, 3),
    ("nested", ("bzr", "git"), ts.NS3, FULL3, "fresh", 2, 3),
    ("dir-move", ("bzr", "git"), ts.NS4, FULL4, "fresh", 2, 3),
    ("kind-change", ("bzr",), ts.NS1F, FULL, "fresh", 2, 3),
    ("empty-live", ("bzr", "git"), ts.NS1, (), "live", 3, 4),
    ("full-live", ("bzr", "git"), ts.NS1, FULL, "live", 2, 2),
]


def _audit(kind):
    """Determinism audit: expand two states twice in-process, successors must be identical."""
    ts._CFG.update(kind=kind, ns=ts.NS1, mode="fresh", check=True)
    ts.warm(kind)
    a = ts._expand([(), FULL])
    b = ts._expand([(), FULL])
    if sorted(a.succ, key=repr) != sorted(b.succ, key=repr) or sorted(a.best) != sorted(b.best):
        raise HarnessError("non-deterministic expansion for %s trees" % kind)
    return a.n


def run(ctx):
    parts = []
    best = {}
    tot = par.Acc()
    states = transitions = live_steps = 0
    nontrivial = set()
    audit = sum(_audit(k) for k in ("bzr", "git"))
    for label, kinds, ns, start, mode, dq, dt in PLAN:
        depth = ctx.q(dq, dt)
        for kind in kinds:
            t0 = time.time()
            r = ts.explore(depth, kind, ns=ns, seed=ctx.seed, mode=mode, check=True, start=start)
            parts.append({"part": label, "tree": kind, "namespace": ns.name, "mode": mode, "depth": depth,
                          "start_ops": len(start), "states": len(r.states), "transitions": r.acc.n,
                          "levels": r.levels, "violating_transitions": r.acc.counters.get("violations_raw", 0),
                          "wall_s": round(time.time() - t0, 1)})
            states += len(r.states)
            transitions += r.acc.n
            live_steps += r.acc.counters.get("live_steps", 0)
            tot.merge(r.acc)
            for sig, (k, d) in r.best.items():
                d = dict(d, tree=kind, namespace=ns.name, part=label)
                if sig not in best or k < best[sig][0]:
                    best[sig] = (k, d)
    for sig in sorted(best):
        ctx.violation(sig, best[sig][1])
    ctx.assumptions.append("dedup on the canonical model state: two histories reaching the same abstract state "
                           "(disk, versioned set with identities, basis) are assumed to have the same futures; "
                           "only the lexicographically first shortest history of each state is extended")
    ctx.assumptions.append("where the statement leaves the outcome open (unversioned leftovers of revert, backups made "
                           "by remove without --force; revert of a single path only in the cases where no parent or "
                           "rename is involved) the model adopts the real directory content and checks the rest")
    ctx.assumptions.append("a transition that violates the oracle is reported and not extended")
    ops = {k[3:]: v for k, v in tot.counters.items() if k.startswith("op:")}
    return {
        "states": states,
        "transitions": transitions,
        "evaluations": transitions,
        "traces_validated_against_impl": transitions + tot.counters.get("live_steps", 0),
        "live_object_steps_checked": tot.counters.get("live_steps", 0),
        "distinct_nontrivial": len(tot.nontrivial),
        "rule": "a transition is non-trivial when the reached state has pending changes against its basis; "
                "distinct = distinct canonical successor states",
        "distinct_observations": len(tot.outcomes),
        "transitions_per_operation": ops,
        "parts": parts,
        "determinism_audit_transitions": audit,
        "samples": [{"history": [list(o) for o in h]} for h in (FULL + (("mv", "a", "b"), ("revert",)),)],
        "cpu_s": _cpu(),
        "exhaustive": True,
    }


def replay(ctx, data):
    d = data["first"]
    kind = d["tree"]
    ns = ts.NAMESPACES[d["namespace"]]
    hist = [tuple(bytes(x, "utf-8") if (i == 2 and o[0] == "write") else x for i, x in enumerate(o))
            for o in d["history"]]
    ts.warm(kind)
    try:
        if d.get("mode") == "one lock, warm caches":
            tree, m = ts.replay(hist[:-1], kind, ns, check=False)
            ts.step(ts.reopen(tree), m, hist[-1], kind, None, check=True, warm=True)
        elif d.get("mode") == "live object":
            ts.replay(hist, kind, ns, check=True)
        else:
            tree, m = ts.replay(hist[:-1], kind, ns, check=False)
            ts.step(ts.reopen(tree), m, hist[-1], kind, None, check=True)
    except ts.Trouble as t:
        print("reproduced:", t.sig, str(t.detail)[:600])
        return False
    return True
