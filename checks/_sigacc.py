"""par.Acc variant that keeps one (the smallest) violation per signature.

par.Acc.violation keeps the first 200 violations of a worker chunk whatever their
signature; a known finding that fires thousands of times could then crowd out a new
signature found later in the same chunk.  This accumulator keeps, per signature, the
violation with the smallest detail, so no signature is ever lost.
"""
from mc import par


class SigAcc(par.Acc):
    def __init__(self, size=None):
        super().__init__()
        self._best = {}
        self._size = size          # module-level function (picklable) or None

    def violation(self, sig, detail):
        k = self._size(detail) if self._size is not None else len(repr(detail))
        cur = self._best.get(sig)
        if cur is None or k < cur[0]:
            self._best[sig] = (k, detail)
            self.violations = [(s, d) for s, (_, d) in sorted(self._best.items())]
        self.count("violations_raw")


def smallest(violations):
    """One violation per signature (smallest detail) from a merged list."""
    best = {}
    for sig, d in violations:
        k = len(repr(d))
        if sig not in best or k < best[sig][0]:
            best[sig] = (k, d)
    return [(s, best[s][1]) for s in sorted(best)]
