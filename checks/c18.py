"""C18 - Merge decision rules are symmetric and consistent with their LCA extension.

Exhaustive evaluation of the real Merge3Merger._three_way(base, other, this) and
Merge3Merger._lca_multi_way((base, lcas), other, this, allow_overriding_lca) on
every assignment of values from a finite domain to base, every LCA (ordered
tuples with repetitions, 0..K LCAs), this and other, for both values of
allow_overriding_lca.  Part A: the full product over an integer domain
(quick: K<=4 over 5 values, thorough: K<=6 over 6 values) and over a domain of
the value types the merger really passes (None, str, bytes, bool, tuple).
Part B: every equality pattern (restricted growth string) of the K+3 slots for
larger K (quick K<=6, thorough K<=8) - complete for those K under the stated
assumption that the decision depends only on which slots are equal.
Oracle, from the statement: (1) for this != other, exchanging THIS and OTHER
exchanges 'this'/'other' and preserves 'conflict'; for this == other (the
documented tie-break) the result is the same both ways; (2) when base and all
LCAs carry one value the multi-way decision equals _three_way(base, other, this)
[secondary, from the function's docstring: when all LCAs carry one value v it
equals _three_way(v, other, this)]; (3) a side whose value is an ancestor value
never wins against a side whose value is not (flagged only when the winner is
unchanged and the loser changed under both readings of "ancestors": the LCAs
alone, and base plus LCAs); results are always one of the three names.
"""
import itertools

from mc import par
from mc.evidence import HarnessError

from . import _u5

ID = "C18"
LEVEL = "exploration"
TECHNIQUE = "exhaustive finite-domain evaluation of the real decision functions against their algebraic laws"

NAMES = ("this", "other", "conflict")
SWAP = {"this": "other", "other": "this", "conflict": "conflict"}
REAL_DOMAIN = (None, "file", b"sha1", False, ("parent-id", "name"))


def _fns():
    from breezy.merge import Merge3Merger
    return Merge3Merger._three_way, Merge3Merger._lca_multi_way


def check_three_way(f3, b, o, t, acc, vs, dom):
    acc.n += 1
    r = f3(b, o, t)
    rs = f3(b, t, o)
    inp = {"fn": "_three_way", "base": b, "other": o, "this": t, "domain": dom}
    acc.outcomes.add(("3way", r))
    if r not in NAMES:
        vs.add("_three_way:result-not-a-decision", dict(input=inp, result=repr(r)))
        return
    if o != t:
        acc.count("nontrivial")
        if rs != SWAP[r]:
            vs.add("_three_way:swap-law:%s-vs-%s" % (r, rs), dict(input=inp, result=r, swapped_result=rs))
    elif rs != r:
        raise HarnessError("non-deterministic _three_way(%r,%r,%r)" % (b, o, t))
    if r in ("this", "other"):
        win, lose = (t, o) if r == "this" else (o, t)
        if win == b and lose != b:
            vs.add("_three_way:unchanged-side-wins:%s" % r, dict(input=inp, result=r))


def check_lca(f3, fl, b, lcas, o, t, allow, acc, vs, dom):
    acc.n += 1
    lc = list(lcas)
    r = fl((b, lc), o, t, allow_overriding_lca=allow)
    rs = fl((b, list(lcas)), t, o, allow_overriding_lca=allow)
    inp = {"fn": "_lca_multi_way", "base": b, "lcas": list(lcas), "other": o, "this": t,
           "allow_overriding_lca": allow, "domain": dom}
    if lc != list(lcas):
        vs.add("_lca_multi_way:mutates-its-argument", dict(input=inp))
    if r not in NAMES:
        vs.add("_lca_multi_way:result-not-a-decision", dict(input=inp, result=repr(r)))
        return
    uniform_all = all(l == b for l in lcas)
    uniform_lcas = len(lcas) > 0 and all(l == lcas[0] for l in lcas)
    acc.outcomes.add(("lca", allow, uniform_all, len(set(lcas)) > 1, r))
    if o != t:
        acc.count("nontrivial")
        if rs != SWAP[r]:
            vs.add("_lca_multi_way:swap-law:%s-vs-%s" % (r, rs), dict(input=inp, result=r, swapped_result=rs))
    elif rs != r:
        raise HarnessError("non-deterministic _lca_multi_way %r" % (inp,))
    if uniform_all:
        acc.count("uniform_ancestors")
        e = f3(b, o, t)
        if r != e:
            vs.add("_lca_multi_way:differs-from-three-way-when-all-ancestors-equal",
                   dict(input=inp, result=r, three_way=e))
    elif uniform_lcas:
        acc.count("uniform_lcas_other_base")
        e = f3(lcas[0], o, t)
        if r != e:
            vs.add("_lca_multi_way:differs-from-three-way-on-the-single-lca-value(docstring)",
                   dict(input=inp, result=r, three_way_on_lca_value=e))
    if r in ("this", "other"):
        win, lose = (t, o) if r == "this" else (o, t)
        narrow = list(lcas) if lcas else [b]          # reading: ancestors = the LCAs
        wide = [b] + list(lcas)                      # reading: ancestors = base and LCAs
        if win in narrow and lose not in wide:
            vs.add("_lca_multi_way:unchanged-side-wins:%s" % r, dict(input=inp, result=r))


def _product_work(chunk):
    f3, fl = _fns()
    acc = par.Acc()
    vs = _u5.SmallestViolations(acc)
    for domname, dom, k, prefix in chunk:
        rest = k + 1 - len(prefix)
        for tail in itertools.product(dom, repeat=rest):
            vals = tuple(prefix) + tail
            b, lcas = vals[0], vals[1:]
            for o in dom:
                for t in dom:
                    if k == 0:
                        check_three_way(f3, b, o, t, acc, vs, domname)
                    check_lca(f3, fl, b, lcas, o, t, True, acc, vs, domname)
                    check_lca(f3, fl, b, lcas, o, t, False, acc, vs, domname)
        acc.sample({"domain": domname, "base": vals[0], "lcas": list(vals[1:]), "other": dom[-1], "this": dom[0]})
    vs.flush()
    return acc


def rgs(n, prefix=()):
    """All restricted growth strings of length n extending prefix."""
    def rec(cur, mx):
        if len(cur) == n:
            yield tuple(cur)
            return
        for v in range(mx + 2):
            cur.append(v)
            yield from rec(cur, max(mx, v))
            cur.pop()
    p = list(prefix)
    yield from rec(p, max(p) if p else -1)


def _rgs_work(chunk):
    f3, fl = _fns()
    acc = par.Acc()
    vs = _u5.SmallestViolations(acc)
    for k, prefix in chunk:
        for s in rgs(k + 3, prefix):
            b, lcas, o, t = s[0], s[1:k + 1], s[k + 1], s[k + 2]
            check_lca(f3, fl, b, lcas, o, t, True, acc, vs, "pattern")
            check_lca(f3, fl, b, lcas, o, t, False, acc, vs, "pattern")
        acc.sample({"pattern_prefix": list(prefix), "lcas": k})
    vs.flush()
    return acc


def run(ctx):
    kmax = ctx.q(4, 6)
    dom = tuple(range(ctx.q(5, 6)))
    kreal = ctx.q(3, 4)
    items = []
    for k in range(0, kmax + 1):
        plen = min(k + 1, 3)
        for prefix in itertools.product(dom, repeat=plen):
            items.append(("int", dom, k, prefix))
    for k in range(0, kreal + 1):
        plen = min(k + 1, 2)
        for prefix in itertools.product(REAL_DOMAIN, repeat=plen):
            items.append(("real-types", REAL_DOMAIN, k, prefix))
    # determinism audit + smallest-first: k = 0 cases run here, twice
    a1 = _product_work([it for it in items if it[2] == 0])
    a2 = _product_work([it for it in items if it[2] == 0])
    if (a1.n, sorted(a1.outcomes, key=repr), a1.violations) != (a2.n, sorted(a2.outcomes, key=repr), a2.violations):
        raise HarnessError("determinism audit failed")
    accs = par.pmap(_product_work, [it for it in items if it[2] > 0], seed=ctx.seed)
    accA = par.merge([a1] + accs)
    # part B: equality patterns for more LCAs than the full product covers
    kpat = ctx.q(6, 8)
    ritems = []
    for k in range(kmax + 1, kpat + 1):
        for prefix in rgs(5):
            ritems.append((k, prefix))
    accB = par.merge(par.pmap(_rgs_work, ritems, seed=ctx.seed))
    _u5.report_smallest(ctx, [accA, accB])
    ctx.assumptions.append(
        "part B (LCA counts %d..%d) enumerates equality patterns only: complete for those counts if the "
        "decision depends only on which of base/LCAs/other/this are equal (true of any code that uses "
        "only ==, in and set() on the values; verified directly for <=%d LCAs by the full product over "
        "%d values, which contains every pattern of up to %d distinct values)" % (kmax + 1, kpat, kmax, len(dom), len(dom)))
    nontrivial = accA.counters.get("nontrivial", 0) + accB.counters.get("nontrivial", 0)
    return {
        "evaluations": accA.n + accB.n,
        "product_evaluations": accA.n,
        "pattern_evaluations": accB.n,
        "distinct_nontrivial": nontrivial,
        "rule": "part A: every (base, ordered LCA tuple of length 0..%d, other, this, allow) over %d ints, and "
                "length 0..%d over 5 real value types; part B: every equality pattern of the slots for %d..%d LCAs; "
                "each tuple is visited once, non-trivial = this != other (the decision "
                "matters); counted, distinct by construction of the enumeration" % (kmax, len(dom), kreal, kmax + 1, kpat),
        "uniform_ancestor_cases": accA.counters.get("uniform_ancestors", 0) + accB.counters.get("uniform_ancestors", 0),
        "uniform_lca_other_base_cases": accA.counters.get("uniform_lcas_other_base", 0) + accB.counters.get("uniform_lcas_other_base", 0),
        "distinct_outcomes": len(accA.outcomes | accB.outcomes),
        "outcomes": sorted(accA.outcomes | accB.outcomes, key=repr),
        "max_lcas_full_product": kmax,
        "max_lcas_patterns": kpat,
        "domain_size": len(dom),
        "samples": accA.samples[:3] + accB.samples[:2],
        "exhaustive": True,
    }


def replay(ctx, data):
    """Re-evaluate the recorded input (integer / pattern domains); True if the signature is gone."""
    f3, fl = _fns()
    inp = data["first"]["input"]
    acc = par.Acc()
    vs = _u5.SmallestViolations(acc)
    if inp["fn"] == "_three_way":
        check_three_way(f3, inp["base"], inp["other"], inp["this"], acc, vs, inp["domain"])
    else:
        check_lca(f3, fl, inp["base"], tuple(inp["lcas"]), inp["other"], inp["this"],
                  inp["allow_overriding_lca"], acc, vs, inp["domain"])
    vs.flush()
    return data["signature"] not in [s for s, _ in acc.violations]
