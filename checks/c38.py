"""C38 - All git SHA-map cache backends answer identically.

Differential model-checking search.  Update steps are the real add_object /
finish call sequences that BazaarObjectStore._update_sha_map_revision makes for
the revisions of real native histories (recorded through a forwarding updater);
they are replayed in lock-step on DictGitShaMap, SqliteGitShaMap and
IndexGitShaMap (created through their cache formats on /dev/shm) for EVERY word
up to a depth over the alphabet {add revision i (any order, re-adding allowed),
C = commit_write_group, A = abort_write_group, R = commit + close + re-open the
persistent backends}; every word runs inside write groups as the real callers
do.  After every step every lookup API (lookup_git_sha, lookup_blob_id,
lookup_tree_id, lookup_commit, revids, sha1s, missing_revisions) is asked for
every id mentioned anywhere in the history plus an unknown one, on all three
backends, and the canonicalised answers are compared with each other and with a
small reference model written from the GitShaMap docstrings (so that the
deviating backend can be named).  States = distinct canonical answer sets,
transitions = executed (prefix, step) pairs.  A second part runs the real
_update_sha_map end to end with each backend installed in the object store.
"""
import itertools
import os
import shutil
import tempfile

from mc import boot, par
from mc.evidence import HarnessError
from checks import _hist

ID = "C38"
LEVEL = "model_checking"
TECHNIQUE = "exhaustive enumeration of update/commit/abort/reopen words, lock-step differential execution on the real backends against a docstring-level reference model"

BACKENDS = ("dict", "sqlite", "index")

# (dag, state assignment) - chosen for the sha<->key structures they produce
HISTORIES = (
    (((), (0,), (1,)), (1, 2, 1)),      # revert: the same root tree sha under two revisions, exec flip, link retarget
    (((), (), (0, 1)), (1, 6, 1)),      # merge of unrelated roots; blobs shared between different file ids
    (((), (0,), (1, 0)), (1, 3, 5)),    # merge, renames, empty directory, nested directories
    (((), (0,), (1,)), (0, 0, 0)),      # three pointless commits of the empty tree
    (((), (0,), (1,)), (3, 4, 5)),      # kind changes, binary content, empty file
    (((), (0,), (0, 1)), (1, 1, 2)),    # pointless commit then merge with the ancestor
    (((), (0,), (0,)), (2, 6, 6)),      # two heads (r1 and r2 are siblings), shared blobs under other file ids
    (((), (), (1, 0)), (5, 5, 1)),      # two roots with identical trees
)

UNKNOWN_SHA = b"f" * 40
UNKNOWN_KEY = (b"no-such-file-id", b"no-such-revision")
UNKNOWN_REVID = b"no-such-revision"


# ---- recording real update sequences ---------------------------------------------------

def record_history(dag, assign, workdir):
    """Returns (revs, calls): revs = real Revision objects, calls[revid] = [(obj, key, path)...]."""
    from breezy.git.cache import BzrGitCache, DictCacheUpdater, DictGitShaMap
    from breezy.git.object_store import BazaarObjectStore
    from mc import world as mw
    b = mw.make_branch(os.path.join(workdir, "src"), "2a")
    ids = _hist.commit_history(b, dag, assign)
    repo = b.repository
    calls = {}

    class RecUpdater(DictCacheUpdater):
        def add_object(self, obj, bzr_key_data, path):
            calls.setdefault(self.revid, []).append((obj, bzr_key_data, path))
            return DictCacheUpdater.add_object(self, obj, bzr_key_data, path)

    store = BazaarObjectStore(repo)
    store._cache = BzrGitCache(DictGitShaMap(), RecUpdater)
    store.start_write_group = store._cache.idmap.start_write_group
    store.abort_write_group = store._cache.idmap.abort_write_group
    store.commit_write_group = store._cache.idmap.commit_write_group
    with store.lock_read():
        store._update_sha_map()
    with repo.lock_read():
        revs = [repo.get_revision(r) for r in ids]
    for r in ids:
        if r not in calls:
            raise HarnessError("no cache update recorded for %r" % r)
    return repo, revs, calls


def obj_info(obj):
    if isinstance(obj, tuple):
        return obj[0], obj[1]
    return obj.type_name.decode("ascii"), obj.id


def universe(revs, calls):
    shas, blob_keys, tree_keys = set(), set(), set()
    for rev in revs:
        for obj, key, _path in calls[rev.revision_id]:
            t, sha = obj_info(obj)
            shas.add(sha)
            if t == "commit":
                shas.add(obj.tree)
            elif t == "blob":
                blob_keys.add(tuple(key))
            elif t == "tree":
                tree_keys.add(tuple(key))
    return {"shas": sorted(shas) + [UNKNOWN_SHA], "blob_keys": sorted(blob_keys) + [UNKNOWN_KEY],
            "tree_keys": sorted(tree_keys) + [UNKNOWN_KEY],
            "revids": [r.revision_id for r in revs] + [UNKNOWN_REVID]}


# ---- reference model (from the GitShaMap docstrings) -----------------------------------------

class Model:
    """Transactional map: changes become permanent at commit_write_group, abort discards them
    ("Discards all changes made since the last start_write_group call")."""

    def __init__(self, abort_discards=True):
        self.committed = self._empty()
        self.pending = None
        self.discards = abort_discards

    @staticmethod
    def _empty():
        return {"by_sha": {}, "blob": {}, "tree": {}, "commit": {}}

    def _copy(self, s):
        return {"by_sha": {k: set(v) for k, v in s["by_sha"].items()}, "blob": dict(s["blob"]),
                "tree": dict(s["tree"]), "commit": dict(s["commit"])}

    def start(self):
        if self.pending is None:
            self.pending = self._copy(self.committed)

    def commit(self):
        self.committed = self.pending
        self.pending = None

    def abort(self):
        if self.discards:
            self.pending = None

    @property
    def cur(self):
        return self.pending if self.pending is not None else self.committed

    def add_revision(self, rev, calls):
        s = self.pending
        for obj, key, _path in calls:
            t, sha = obj_info(obj)
            if t == "commit":
                verifiers = tuple(sorted((k, v) for k, v in key.items()))
                s["commit"][rev.revision_id] = sha
                s["by_sha"].setdefault(sha, set()).add(("commit", (rev.revision_id, obj.tree, verifiers)))
            else:
                s[t][tuple(key)] = sha
                s["by_sha"].setdefault(sha, set()).add((t, tuple(key)))

    # answers, canonical
    def answers(self, uni):
        s = self.cur
        out = {}
        for sha in uni["shas"]:
            out[("lookup_git_sha", sha)] = tuple(sorted(s["by_sha"][sha])) if sha in s["by_sha"] else "KeyError"
        for k in uni["blob_keys"]:
            out[("lookup_blob_id", k)] = s["blob"].get(k, "KeyError")
        for k in uni["tree_keys"]:
            out[("lookup_tree_id", k)] = s["tree"].get(k, "KeyError")
        for r in uni["revids"]:
            out[("lookup_commit", r)] = s["commit"].get(r, "KeyError")
        out[("revids",)] = tuple(sorted(s["commit"]))
        out[("sha1s",)] = tuple(sorted(s["by_sha"]))
        out[("missing_revisions",)] = tuple(sorted(set(uni["revids"]) - set(s["commit"])))
        return out


# ---- real backends ---------------------------------------------------------------------

class TypeNote:
    def __init__(self):
        self.str_seen = set()


def nb(x, note, where):
    if isinstance(x, str):
        note.str_seen.add(where)
        return x.encode("utf-8")
    return x


def canon_entry(e, note, where):
    t, data = e
    if t == "commit":
        revid, tree_sha, verifiers = data
        v = tuple(sorted((k, nb(val, note, where)) for k, val in dict(verifiers).items()))
        return (t, (nb(revid, note, where), nb(tree_sha, note, where), v))
    return (t, tuple(nb(x, note, where) for x in data))


def ask(idmap, uni, note, bname):
    """Canonical answers of a real GitShaMap."""
    out = {}

    def call(key, fn):
        try:
            out[key] = fn()
        except KeyError:
            out[key] = "KeyError"
        except NotImplementedError:
            out[key] = "NotImplementedError"
        except Exception as e:  # noqa - an exception in a lookup is an answer that the other backends do not give
            out[key] = "raises:" + type(e).__name__
    for sha in uni["shas"]:
        call(("lookup_git_sha", sha),
             lambda: tuple(sorted(canon_entry(e, note, bname + ".lookup_git_sha") for e in idmap.lookup_git_sha(sha))))
    for k in uni["blob_keys"]:
        call(("lookup_blob_id", k), lambda: nb(idmap.lookup_blob_id(*k), note, bname + ".lookup_blob_id"))
    for k in uni["tree_keys"]:
        call(("lookup_tree_id", k), lambda: nb(idmap.lookup_tree_id(*k), note, bname + ".lookup_tree_id"))
    for r in uni["revids"]:
        call(("lookup_commit", r), lambda: nb(idmap.lookup_commit(r), note, bname + ".lookup_commit"))
    call(("revids",), lambda: tuple(sorted(nb(r, note, bname + ".revids") for r in idmap.revids())))
    call(("sha1s",), lambda: tuple(sorted(set(nb(r, note, bname + ".sha1s") for r in idmap.sha1s()))))
    call(("missing_revisions",),
         lambda: tuple(sorted(nb(r, note, bname + ".missing_revisions") for r in idmap.missing_revisions(list(uni["revids"])))))
    return out


class Trio:
    """The three real backends, created through their cache formats on one scratch directory."""

    def __init__(self, root):
        from breezy.git import cache as gc
        from dromedary import get_transport_from_path
        self.gc = gc
        self.root = root
        self.caches = {"dict": gc.DictBzrGitCache()}
        self.t = {}
        for name, fmt in (("sqlite", gc.SqliteGitCacheFormat()), ("index", gc.IndexGitCacheFormat())):
            d = os.path.join(root, name)
            os.mkdir(d)
            t = get_transport_from_path(d)
            fmt.initialize(t)
            self.t[name] = t
            self.caches[name] = gc.BzrGitCacheFormat.from_transport(t)
        exp = {"dict": gc.DictGitShaMap, "sqlite": gc.SqliteGitShaMap, "index": gc.IndexGitShaMap}
        for name in BACKENDS:
            if type(self.caches[name].idmap) is not exp[name]:
                raise HarnessError("backend %s opened as %r" % (name, self.caches[name].idmap))

    def each(self, fn):
        for name in BACKENDS:
            fn(name, self.caches[name])

    def _close_sqlite(self):
        path = self.caches["sqlite"].idmap.path
        db = self.gc.mapdbs().pop(path, None)
        if db is not None:
            db.close()

    def reopen(self):
        """Close and re-open the persistent backends (the in-memory one has nothing to re-open)."""
        self._close_sqlite()
        for name in ("sqlite", "index"):
            self.caches[name] = self.gc.BzrGitCacheFormat.from_transport(self.t[name])

    def close(self):
        self._close_sqlite()


def deviations(ans, model_ans):
    """{key: value} where a backend's answer differs from the model (documented refusals excluded)."""
    return {k: v for k, v in ans.items() if v != "NotImplementedError" and v != model_ans[k]}


def report(acc, answers, model_ans, active, phase, ctxd, skip=None):
    """Ordinary per-API comparison: one violation per (API, backend deviating from the model, phase).
    The property is agreement between backends; the docstring-level model only arbitrates who deviates.
    (If every backend gave the same non-model answer it would be reported for each of them.)"""
    for key in model_ans:
        vals = {b: answers[b][key] for b in active}
        for b in active:
            v = vals[b]
            if v == "NotImplementedError" or v == model_ans[key] or (skip and b in skip):
                continue
            api = key[0]
            d = dict(ctxd)
            d.update(query=list(key[1:]), model=model_ans[key], answers=vals)
            if isinstance(v, str) and v.startswith("raises:"):
                acc.violation("%s:%s:%s" % (api, v, b), d)
                continue
            multi = ""
            if api == "lookup_git_sha" and model_ans[key] != "KeyError" and len(model_ans[key]) > 1:
                multi = ":sha-with-several-keys"
            acc.violation("%s:%s!=model:%s%s" % (api, b, phase, multi), d)


def run_word(hist_idx, H, word, root, acc, states, check_all=False, letters=None):
    """Execute one word on fresh backends; compare after the steps that this word is responsible for.

    A backend that is found not to discard aborted changes, or whose answers change across close/re-open,
    is reported once (abort_write_group:... / reopen:...) and then left out of the comparisons for the rest
    of the word (what follows is a consequence)."""
    repo, revs, calls, uni = H
    d = tempfile.mkdtemp(prefix="w-", dir=root)
    trio = Trio(d)
    model = Model()
    lax = Model(abort_discards=False)       # what a backend with a no-op abort would answer
    note = TypeNote()
    active = list(BACKENDS)
    ctx0 = {"history": hist_idx, "dag": [list(p) for p in HISTORIES[hist_idx][0]], "states": list(HISTORIES[hist_idx][1])}
    try:
        trio.each(lambda n, c: c.idmap.start_write_group())
        model.start()
        lax.start()
        phase = "committed"
        for i, letter in enumerate(word):
            # each prefix is compared by exactly one word (the one that continues with letters[0] only); A and R
            # steps are always examined because they decide which backends stay in the comparison
            mine = check_all or all(x == letters[0] for x in word[i + 1:])
            ctxd = dict(ctx0)
            ctxd["word"] = list(word[:i + 1])
            pre = None
            if isinstance(letter, int):
                rev = revs[letter]

                def upd(name, cache):
                    u = cache.get_updater(rev)
                    for obj, key, path in calls[rev.revision_id]:
                        u.add_object(obj, key, path)
                    u.finish()
                trio.each(upd)
                model.add_revision(rev, calls[rev.revision_id])
                lax.add_revision(rev, calls[rev.revision_id])
                phase = "uncommitted"
            elif letter == "C":
                trio.each(lambda n, c: c.idmap.commit_write_group())
                trio.each(lambda n, c: c.idmap.start_write_group())
                for m in (model, lax):
                    m.commit()
                    m.start()
                phase = "committed"
            elif letter == "A":
                trio.each(lambda n, c: c.idmap.abort_write_group())
                trio.each(lambda n, c: c.idmap.start_write_group())
                for m in (model, lax):
                    m.abort()
                    m.start()
                phase = "committed"
            elif letter == "R":
                trio.each(lambda n, c: c.idmap.commit_write_group())
                pre = {b: ask(trio.caches[b].idmap, uni, note, b) for b in active}
                trio.reopen()
                trio.each(lambda n, c: c.idmap.start_write_group())
                for m in (model, lax):
                    m.commit()
                    m.start()
                phase = "committed"
            else:
                raise HarnessError(letter)
            if not (mine or letter in ("A", "R")):
                continue
            if mine:
                acc.count("transitions")
            answers = {b: ask(trio.caches[b].idmap, uni, note, b) for b in active}
            model_ans = model.answers(uni)
            if mine:
                acc.n += len(model_ans) * len(active)
            st = hash(tuple(sorted((repr(k), repr(v)) for k, v in model_ans.items())))
            states.add((hist_idx, st))
            if len(model.cur["commit"]) >= 2:
                acc.nt((hist_idx, word[:i + 1]))
            skip = set()
            drop = []
            if letter == "A":
                lax_ans = lax.answers(uni)
                for b in active:
                    ks = [k for k in model_ans if answers[b][k] == lax_ans[k] != model_ans[k]]
                    if ks:
                        dd = dict(ctxd)
                        dd.update(query=list(ks[0]), model=model_ans[ks[0]], answer=answers[b][ks[0]])
                        acc.violation("abort_write_group:changes-not-discarded:" + b, dd)
                        drop.append(b)
                        skip.add(b)
            if letter == "R":
                for b in active:
                    ks = [k for k in model_ans if pre[b][k] != answers[b][k]]
                    if ks:
                        dd = dict(ctxd)
                        dd.update(query=list(ks[0]), before_close=pre[b][ks[0]], after_reopen=answers[b][ks[0]])
                        acc.violation("reopen:answers-changed:" + b, dd)
                        drop.append(b)
                        skip.add(b)
            report(acc, answers, model_ans, active, phase, ctxd, skip)
            for b in active:
                for key, v in answers[b].items():
                    if v == "NotImplementedError":
                        acc.count("not_implemented:%s.%s" % (b, key[0]))
            for b in drop:
                if b in active:
                    active.remove(b)
        for w in sorted(note.str_seen):
            acc.violation("type:str-instead-of-bytes:" + w, dict(ctx0, word=list(word)))
    finally:
        trio.close()
        shutil.rmtree(d, ignore_errors=True)


_W = {}


def world():
    if _W.get("pid") != os.getpid():
        root = boot.scratch("c38")
        hs = []
        for idx, (dag, assign) in enumerate(HISTORIES):
            repo, revs, calls = record_history(dag, assign, tempfile.mkdtemp(prefix="h%d-" % idx, dir=root))
            hs.append((repo, revs, calls, universe(revs, calls)))
        _W.update(pid=os.getpid(), root=root, hs=hs)
    return _W


def letters_for(n):
    return tuple(range(n)) + ("C", "A", "R")


def _work(chunk):
    w = world()
    acc = par.Acc()
    states = set()
    for hist_idx, word in chunk:
        H = w["hs"][hist_idx]
        run_word(hist_idx, H, word, w["root"], acc, states, letters=letters_for(len(H[1])))
    acc.outcomes |= states
    if chunk:
        acc.sample({"history": chunk[0][0], "word": list(chunk[0][1])})
    return acc


def e2e(acc):
    """The real _update_sha_map with each backend installed in the object store; then compare."""
    from breezy.git.object_store import BazaarObjectStore
    w = world()
    for idx, (repo, revs, calls, uni) in enumerate(w["hs"]):
        d = tempfile.mkdtemp(prefix="e-", dir=w["root"])
        trio = Trio(d)
        note = TypeNote()
        try:
            answers = {}
            for b in BACKENDS:
                store = BazaarObjectStore(repo)
                store._cache = trio.caches[b]
                store.start_write_group = store._cache.idmap.start_write_group
                store.abort_write_group = store._cache.idmap.abort_write_group
                store.commit_write_group = store._cache.idmap.commit_write_group
                try:
                    with store.lock_read():
                        store._update_sha_map()
                except Exception as e:  # noqa - the real updater failing on top of one backend is a difference
                    import traceback
                    fn = "?"
                    for fr in traceback.extract_tb(e.__traceback__):
                        if fr.filename.startswith(boot.REPO + "/"):
                            fn = "%s.%s" % (os.path.basename(fr.filename)[:-3], fr.name)
                    acc.violation("update_sha_map:%s:%s:%s" % (type(e).__name__, fn, b),
                                  {"history": idx, "dag": [list(p) for p in HISTORIES[idx][0]],
                                   "states": list(HISTORIES[idx][1]), "error": str(e)[:300]})
            trio.reopen()
            for b in BACKENDS:
                answers[b] = ask(trio.caches[b].idmap, uni, note, b)
            model = Model()
            model.start()
            for rev in revs:
                model.add_revision(rev, calls[rev.revision_id])
            model.commit()
            model_ans = model.answers(uni)
            acc.count("e2e_histories")
            acc.n += len(model_ans) * len(BACKENDS)
            report(acc, answers, model_ans, list(BACKENDS), "committed",
                   {"history": idx, "dag": [list(p) for p in HISTORIES[idx][0]], "states": list(HISTORIES[idx][1]),
                    "word": "real _update_sha_map + reopen"})
        finally:
            trio.close()
            shutil.rmtree(d, ignore_errors=True)


def run(ctx):
    depth = ctx.q(4, 5)
    try:
        import tdb  # noqa: F401
        raise HarnessError("tdb is importable now: add TdbGitShaMap to BACKENDS")
    except ImportError:
        pass
    w = world()
    items = []
    for idx, H in enumerate(w["hs"]):
        letters = letters_for(len(H[1]))
        for word in itertools.product(letters, repeat=depth):
            items.append((idx, word))
    # determinism audit: the first words twice
    for idx, word in items[:5] + items[-5:]:
        a1, a2 = par.Acc(), par.Acc()
        run_word(idx, w["hs"][idx], word, w["root"], a1, set(), check_all=True, letters=letters_for(3))
        run_word(idx, w["hs"][idx], word, w["root"], a2, set(), check_all=True, letters=letters_for(3))
        if a1.violations != a2.violations or a1.n != a2.n:
            raise HarnessError("determinism audit failed on %r" % (word,))
    acc = par.merge(par.pmap(_work, items, seed=ctx.seed))
    acc2 = par.Acc()
    e2e(acc2)
    best = {}
    for a in (acc, acc2):
        for sig, dd in a.violations:
            k = (len(dd.get("word", [])), dd.get("history", 0), repr(dd.get("word")), repr(dd.get("query")))
            if sig not in best or k < best[sig][0]:
                best[sig] = (k, dd)
    for sig in sorted(best):
        ctx.violation(sig, best[sig][1])
    ctx.assumptions.append("TdbGitShaMap excluded: the tdb module is not installed in this environment")
    ctx.assumptions.append("NotImplementedError (IndexGitShaMap has no lookup_tree_id: 'not all cache backends store the tree "
                           "information', callers catch it) is a documented refusal and is not compared; counted in not_implemented")
    ctx.assumptions.append("blob/tree id lookups are asked for keys recorded as blob resp. tree keys plus one unknown key; "
                           "all updates happen inside write groups, as in BazaarObjectStore._update_sha_map")
    ctx.assumptions.append("abort semantics of the reference model follow the GitShaMap.abort_write_group docstring (changes since start_write_group are discarded)")
    ni = {k: v for k, v in acc.counters.items() if k.startswith("not_implemented")}
    return {
        "evaluations": acc.n + acc2.n,
        "states": len(acc.outcomes),
        "transitions": acc.counters.get("transitions", 0),
        "traces_validated_against_impl": len(items) + acc2.counters.get("e2e_histories", 0),
        "distinct_nontrivial": len(acc.nontrivial),
        "rule": "every word of length %d over {add r0,r1,r2, C, A, R} for %d recorded histories, answers compared after every "
                "prefix; non-trivial = at least two revisions visible in the model at the comparison" % (depth, len(w["hs"])),
        "depth": depth,
        "histories": len(w["hs"]),
        "words": len(items),
        "queries_per_comparison": [len(h[3]["shas"]) + len(h[3]["blob_keys"]) + len(h[3]["tree_keys"]) + len(h[3]["revids"]) + 3 for h in w["hs"]],
        "not_implemented": ni,
        "samples": acc.samples[:3],
        "exhaustive": True,
    }
