"""C12 - Tree-changing commands never silently discard uncommitted work (bzr working trees).

World (real 2a branch `m` with history r0 -> r1, a lightweight checkout `t`
with the working tree on /dev/shm, and incoming branches i1..i4 each one commit
on top of r1: i1 edits other lines of `a` and `d/c`, i2 edits the same lines the
user edits, i3 deletes `a`, `d/c`, `d` and adds `new`, i4 renames `a` and `d`).

States: every sequence of <= 2 (quick) / <= 3 (thorough) user operations over
{edit a, edit d/c, add `new` (clashes with i3), add `x`, unknown file `u`,
unknown file `new`, unknown directory `ud/x`, rename a -> a2, remove --keep a,
merge i1 / i2 / i3, edit a + merge i2 as one step (so that merge-modified
files, text conflicts with helper files and pending merges exist)}.  Every piece of content the "user" writes is a unique
token, so the harness knows exactly which bytes are user work.

Commands, each run on a fresh copy of every state:
 revert   (all / each candidate path) x (backups, no backups)
 remove   each candidate path x (keep, default, force)
 merge    i1..i4 (force) and i1 without force
 update   after the branch advanced to i1..i4, and update back to r0
 switch   to i1..i4
 switch --store   to i1..i4 and back to m with --store (API; once through the
          command): the round trip must bring every user content back (or
          leave it parked in the other branch, from where one more `switch
          --store` brings it back, possibly merged); to i1
          when m already holds changes parked from another checkout (refused:
          ChangesAlreadyStored); to i1 with an OSError / TransportError
          injected into Branch.store_uncommitted after the shelf was serialised
 pull     i1..i4 into the tree
 uncommit API and command

Criss-cross part: every history r0 -> {xa, xb} -> {xt = merge(xa, xb), xo =
merge(xb, xa)} (two LCAs) with the text of one file chosen per revision from
an 8-text alphabet (LCA1 in 2, LCA2 in 4, THIS tip in 3, OTHER tip in 5 texts)
x 7 uncommitted working texts (including the LCA texts and the base text),
`merge --force` of xo into the tree at xt.  Oracle: the working text survives
byte-identically somewhere, or a file holds the clean merge3 of (B, working,
OTHER) for a defensible base B: the common base text, or the single LCA text
when the LCAs do not disagree (all readings accepted).

Oracle.  U = files under the tree root (control directory excluded) whose bytes
are a user token, that were not (re)written by the state's merge step and whose
sha1 is not recorded in merge_modified().  After the command every (path,
bytes) in U must still exist byte-identically in some file under the tree root
(same path, `.~N~` backup, `.THIS`, `.moved`, anywhere), or - merge-like
commands only - some file must hold the clean three-way merge (merge3 package
on base = r1 text, local = the user's bytes, incoming text of the same file id).
Exempt: paths selected by `revert --no-backup` that are versioned, paths
selected by `remove --force`.  Uncommit: the directory snapshot is
byte-identical.  Internal errors (non-BzrError exceptions) are findings.
"""
import contextlib
import hashlib
import io
import itertools
import os
import shutil
import traceback

from mc import boot, par, world, wt
from mc.evidence import HarnessError

ID = "C12"
LEVEL = "model_checking"
TECHNIQUE = "explicit enumeration of working-tree states (bounded user operation sequences) x commands on real trees, content-preservation oracle on directory snapshots"

TS = 1_000_000_000.0
BASE = {"a": b"a1\na2\na3\n", "c": b"c1\nc2\nc3\n", "b": b"b1\nb2\nb3\n"}
R0 = {"a": b"a1\na2\nOLD\n", "c": BASE["c"], "b": None}
INC = {
    "i1": {"a": b"a1\na2\na3-i1\n", "c": b"c1\nc2\nc3-i1\n", "b": BASE["b"]},
    "i2": {"a": b"a1-i2\na2\na3\n", "c": b"c1-i2\nc2\nc3\n", "b": BASE["b"]},
    "i3": {"a": None, "c": None, "b": BASE["b"]},
    "i4": {"a": BASE["a"], "c": BASE["c"], "b": BASE["b"]},
    "r0": R0,
}
FID = {b"a-id": "a", b"c-id": "c", b"b-id": "b"}


def spec(a="a", d="d", contents=BASE, with_b=True, extra=None):
    s = {}
    if contents.get("a") is not None:
        s[a] = world.F(b"a-id", contents["a"])
    if contents.get("c") is not None:
        s[d] = world.D(b"d-id")
        s[d + "/c"] = world.F(b"c-id", contents["c"])
    if with_b and contents.get("b") is not None:
        s["b"] = world.F(b"b-id", contents["b"])
    if extra:
        s.update(extra)
    return s


_W = {}


def workdir():
    if _W.get("pid") != os.getpid():
        _W.clear()
        _W["pid"] = os.getpid()
        _W["dir"] = boot.scratch("c12")
        build(_W["dir"])
    return _W["dir"]


def build(W):
    from breezy.branch import Branch
    m = world.make_branch("file://" + os.path.join(W, "m") + "/", "2a")
    world.commit_spec(m, b"r0", [], spec(contents=R0), timestamp=TS)
    world.commit_spec(m, b"r1", [b"r0"], spec(), timestamp=TS + 1)
    for name, sp in (("i1", spec(contents=INC["i1"])), ("i2", spec(contents=INC["i2"])),
                     ("i3", spec(contents=INC["i3"], extra={"new": world.F(b"new-i3-id", b"new from i3\n")})),
                     ("i4", spec(a="z", d="e"))):
        b = m.controldir.sprout("file://" + os.path.join(W, name) + "/", revision_id=b"r1", create_tree_if_local=False).open_branch()
        world.commit_spec(b, name.encode(), [b"r1"], sp, timestamp=TS + 2)
    m = Branch.open(os.path.join(W, "m"))
    m.create_checkout(os.path.join(W, "t"), lightweight=True)
    m.create_checkout(os.path.join(W, "t2"), lightweight=True)      # another checkout of m, used to park changes in m
    os.mkdir(os.path.join(W, "tpl"))
    for d in ("t", "m", "t2"):
        shutil.copytree(os.path.join(W, d), os.path.join(W, "tpl", d), symlinks=True)


def restore(W, frm):
    for d in ("t", "m"):
        shutil.rmtree(os.path.join(W, d), ignore_errors=True)
        shutil.copytree(os.path.join(W, frm, d), os.path.join(W, d), symlinks=True)


def save(W, to):
    shutil.rmtree(os.path.join(W, to), ignore_errors=True)
    os.mkdir(os.path.join(W, to))
    for d in ("t", "m"):
        shutil.copytree(os.path.join(W, d), os.path.join(W, to, d), symlinks=True)


def open_tree(W):
    from breezy.workingtree import WorkingTree
    return WorkingTree.open(os.path.join(W, "t"))


def open_branch(W, name):
    from breezy.branch import Branch
    return Branch.open(os.path.join(W, name))


# ---- user operations (state generation) --------------------------------------------

OPS = ("Ea", "Ec", "An", "Ax", "Uu", "Un", "Ud", "Ra", "Ka", "M1", "M2", "M3", "C2")


class Invalid(Exception):
    pass


def files_of(root):
    return {p: v[1] for p, v in wt.dir_snapshot(root).items() if v[0] == "file"}


def apply_op(W, op, seq, st):
    """Apply one user operation to W/t.  st: {'tokens': {bytes: key}, 'merge_written': set(paths)}."""
    root = os.path.join(W, "t")
    t = open_tree(W)

    def token(name):
        return ("USER-%s-%d\n" % (name, seq)).encode()

    def write_new(path, name, key=None):
        full = os.path.join(root, path)
        if os.path.lexists(full):
            raise Invalid()
        c = token(name)
        with open(full, "wb") as f:
            f.write(c)
        st["tokens"][c] = key
        st["merge_written"].discard(path)

    if op == "C2":      # composite: edit a, then merge i2 -> a text conflict with helper files in one step
        apply_op(W, "Ea", seq, st)
        apply_op(W, "M2", seq, st)
        if not open_tree(W).conflicts():
            raise Invalid()
    elif op in ("Ea", "Ec"):
        want = b"a-id" if op == "Ea" else b"c-id"
        path = None
        for cand in (("a", "a2") if op == "Ea" else ("d/c",)):
            if os.path.isfile(os.path.join(root, cand)):
                path = cand
                break
        if path is None:
            raise Invalid()
        with open(os.path.join(root, path), "rb") as f:
            lines = f.read().splitlines(True)
        lines[:1] = [token(op[1])]
        c = b"".join(lines)
        with open(os.path.join(root, path), "wb") as f:
            f.write(c)
        fid = t.path2id(path)
        st["tokens"][c] = FID.get(fid) if fid == want else None
        st["merge_written"].discard(path)
    elif op == "An":
        write_new("new", "new")
        t.add(["new"], ids=[b"new-user-id"])
    elif op == "Ax":
        write_new("x", "x")
        t.add(["x"], ids=[b"x-id"])
    elif op == "Uu":
        write_new("u", "u")
    elif op == "Un":
        write_new("new", "unknown-new")
    elif op == "Ud":
        if os.path.lexists(os.path.join(root, "ud")):
            raise Invalid()
        os.mkdir(os.path.join(root, "ud"))
        write_new("ud/x", "ud-x")
    elif op == "Ra":
        if not t.is_versioned("a") or os.path.lexists(os.path.join(root, "a2")) or not os.path.isfile(os.path.join(root, "a")):
            raise Invalid()
        t.rename_one("a", "a2")
        if "a" in st["merge_written"]:
            st["merge_written"].discard("a")
            st["merge_written"].add("a2")
    elif op == "Ka":
        if not t.is_versioned("a"):
            raise Invalid()
        t.remove(["a"], keep_files=True)
    elif op in ("M1", "M2", "M3"):
        if len(t.get_parent_ids()) > 1:
            raise Invalid()
        before = files_of(root)
        other = open_branch(W, "i" + op[1])
        try:
            t.merge_from_branch(other, force=True)
        except Exception:
            raise Invalid()
        after = files_of(root)
        had = set(before.values())
        for p, c in after.items():
            if before.get(p) == c:
                continue
            if c not in had or p.endswith((".THIS", ".BASE", ".OTHER")):
                st["merge_written"].add(p)       # bytes produced by the merge, or one of its conflict helper files
            else:
                st["merge_written"].discard(p)   # the user's own file moved aside by the merge (e.g. `.moved`)
    else:
        raise ValueError(op)


def make_state(W, ops):
    restore(W, "tpl")
    st = {"tokens": {}, "merge_written": set()}
    for i, op in enumerate(ops):
        apply_op(W, op, i, st)
    return st


# ---- commands ------------------------------------------------------------------------

CAND = ("a", "a2", "d", "d/c", "new", "x", "u", "ud", "b")
MERGE_LIKE = ("merge", "merge-noforce", "update", "switch", "pull")


def commands(pre_files, versioned):
    out = []
    present = [p for p in CAND if p in versioned or p in pre_files or any(q.startswith(p + "/") for q in pre_files)]
    basis_paths = ("a", "d", "d/c", "b")
    sel = [p for p in CAND if p in present or p in basis_paths]
    for backups in (True, False):
        out.append(("revert", None, backups))
        for p in sel:
            out.append(("revert", p, backups))
    for p in present:
        for mode in ("keep", "default", "force"):
            out.append(("remove", p, mode))
    for k in ("i1", "i2", "i3", "i4"):
        out.append(("merge", k, None))
        out.append(("update", k, None))
        out.append(("switch", k, None))
        out.append(("pull", k, None))
    for k in ("i1", "i2", "i3", "i4"):
        out.append(("switch-store", k, "roundtrip"))
    out.append(("switch-store", "i1", "cmd-roundtrip"))
    out.append(("switch-store", "i1", "already-stored"))
    out.append(("switch-store", "i1", "fault-OSError"))
    out.append(("switch-store", "i1", "fault-TransportError"))
    out.append(("merge-noforce", "i1", None))
    out.append(("update", "r0", None))
    out.append(("uncommit", "api", None))
    out.append(("uncommit", "cmd", None))
    return out


def run_command(W, cmd):
    from breezy import switch as _switch
    from breezy import uncommit as U
    kind, arg, opt = cmd
    t = open_tree(W)
    with contextlib.redirect_stdout(io.StringIO()), contextlib.redirect_stderr(io.StringIO()):
        if kind == "revert":
            t.revert([arg] if arg is not None else None, backups=opt)
        elif kind == "remove":
            t.remove([arg], keep_files=(opt == "keep"), force=(opt == "force"), to_file=io.StringIO())
        elif kind == "merge":
            t.merge_from_branch(open_branch(W, arg), force=True)
        elif kind == "merge-noforce":
            t.merge_from_branch(open_branch(W, arg), force=False)
        elif kind == "update":
            if arg == "r0":
                t.update(revision=b"r0", old_tip=None)
            else:
                open_branch(W, "m").pull(open_branch(W, arg))     # somebody else's commit arrives in the branch
                open_tree(W).update()
        elif kind == "switch":
            _switch.switch(t.controldir, open_branch(W, arg), quiet=True)
        elif kind == "switch-store":
            switch_store(W, t, arg, opt)
        elif kind == "pull":
            t.pull(open_branch(W, arg))
        elif kind == "uncommit":
            if arg == "api":
                U.uncommit(t.branch, tree=t)
            else:
                from breezy.builtins import cmd_uncommit
                c = cmd_uncommit()
                c.outf = io.StringIO()
                c.run_argv_aliases(["--force", os.path.join(W, "t")])
        else:
            raise ValueError(kind)


def park_changes_in_m(W):
    """Make branch m hold stored uncommitted changes that were parked from another checkout of it (real code path:
    WorkingTree.store_uncommitted in its success case)."""
    from breezy.workingtree import WorkingTree
    shutil.rmtree(os.path.join(W, "t2"), ignore_errors=True)
    shutil.copytree(os.path.join(W, "tpl", "t2"), os.path.join(W, "t2"), symlinks=True)
    with open(os.path.join(W, "t2", "b"), "wb") as f:
        f.write(b"b1\nparked earlier from another checkout\nb3\n")
    WorkingTree.open(os.path.join(W, "t2")).store_uncommitted()
    if not open_branch(W, "m")._transport.has("stored-transform"):
        raise HarnessError("could not park changes in branch m")


def switch_store(W, t, arg, mode):
    """`switch --store` scenarios.  Errors of the first step do not stop a round trip: the way back is always tried,
    because that is how a user gets parked changes back."""
    from breezy import switch as _switch
    from breezy.bzr import branch as _bzrbranch
    if mode == "roundtrip":
        first = None
        try:
            _switch.switch(t.controldir, open_branch(W, arg), quiet=True, store_uncommitted=True)
        except Exception as e:  # noqa
            first = e
        _switch.switch(open_tree(W).controldir, open_branch(W, "m"), quiet=True, store_uncommitted=True)
        if first is not None:
            raise first
    elif mode == "cmd-roundtrip":
        from breezy.builtins import cmd_switch
        first = None
        for target in (arg, "m"):
            c = cmd_switch()
            c.outf = io.StringIO()
            try:
                c.run_argv_aliases(["--store", "-d", os.path.join(W, "t"), os.path.join(W, target)])
            except Exception as e:  # noqa
                first = first or e
        if first is not None:
            raise first
    elif mode == "already-stored":
        park_changes_in_m(W)
        _switch.switch(t.controldir, open_branch(W, arg), quiet=True, store_uncommitted=True)
    elif mode.startswith("fault-"):
        import errno

        from dromedary.errors import TransportError
        orig = _bzrbranch.BzrBranch.store_uncommitted

        def failing(self, creator):
            if creator is None:
                return orig(self, creator)
            creator.write_shelf(io.BytesIO())      # the shelf is serialised, the write to the branch fails
            if mode == "fault-OSError":
                raise OSError(errno.ENOSPC, "No space left on device (injected)")
            raise TransportError("injected fault writing stored-transform")
        _bzrbranch.BzrBranch.store_uncommitted = failing
        try:
            _switch.switch(t.controldir, open_branch(W, arg), quiet=True, store_uncommitted=True)
        finally:
            _bzrbranch.BzrBranch.store_uncommitted = orig
    else:
        raise ValueError(mode)


def clean_merge(base, this, other):
    """The clean three-way merge text, or None when there is none (conflict / a side deleted the file)."""
    if base is None or other is None:
        return None
    import merge3
    m = merge3.Merge3(base.splitlines(True), this.splitlines(True), other.splitlines(True))
    if any(r[0] == "conflict" for r in m.merge_regions()):
        return None
    res = b"".join(m.merge_lines())
    # cross-check with a line-wise reference when all three have the same number of lines
    bl, tl, ol = base.splitlines(True), this.splitlines(True), other.splitlines(True)
    if len(bl) == len(tl) == len(ol):
        ref = []
        for x, y, z in zip(bl, tl, ol):
            if y == x:
                ref.append(z)
            elif z == x or z == y:
                ref.append(y)
            else:
                ref = None
                break
        if ref is not None and b"".join(ref) != res:
            raise HarnessError("merge references disagree: %r %r %r" % (base, this, other))
    return res


def inside(sel, p):
    return p == sel or p.startswith(sel + "/")


def sha1(b):
    return hashlib.sha1(b).hexdigest().encode()


def frame(tb):
    repo = os.path.realpath(boot.REPO) + os.sep
    name = "?"
    for fs in traceback.extract_tb(tb):
        if os.path.realpath(fs.filename).startswith(repo):
            name = "%s:%s" % (os.path.relpath(os.path.realpath(fs.filename), repo), fs.name)
    return name


def judge(ops, cmd, st, pre, post, versioned, mm, acc, exc, parked=None):
    kind, arg, opt = cmd
    det = {"user_ops": list(ops), "command": list(cmd)}
    if exc is not None:
        from breezy import errors
        e = exc
        injected = kind == "switch-store" and str(opt).startswith("fault-") and "injected" in str(e)
        if isinstance(e, errors.BzrError) or injected:
            acc.outcomes.add((kind, opt if kind == "switch-store" else None, type(e).__name__))
            acc.count("refusals")
        else:
            acc.violation("%s:%s:%s" % (kind, type(e).__name__, frame(e.__traceback__)), dict(det, error=str(e)[:300]))
    pre_files = {p: v[1] for p, v in pre.items() if v[0] == "file"}
    post_files = {p: v[1] for p, v in post.items() if v[0] == "file"}
    post_contents = set(post_files.values())
    if kind == "uncommit":
        if pre != post:
            acc.violation("uncommit:working-files-changed", dict(det, changed=sorted(k for k in set(pre) | set(post) if pre.get(k) != post.get(k))))
        return 0
    n_u = 0
    for p, c in sorted(pre_files.items()):
        if c not in st["tokens"] or p in st["merge_written"]:
            continue
        if mm.get(p) == sha1(c):
            continue
        # exemptions: the user asked to discard
        if kind == "revert" and opt is False and p in versioned and (
                arg is None or inside(arg, p) or (versioned[p] is not None and inside(arg, versioned[p]))):
            continue        # the selection names the file by its current or by its basis path
        if kind == "remove" and opt == "force" and inside(arg, p):
            continue
        n_u += 1
        if c in post_contents:
            continue
        if kind == "switch-store" and opt.endswith("roundtrip"):
            # changes the round trip left parked in the other branch are not lost: follow the user's way to them
            # (`switch --store` to that branch again); there they may have been merged with that branch's changes
            if parked is not None and "contents" not in parked:
                parked["contents"] = parked["fetch"]()
            more = parked["contents"] if parked else set()
            key = st["tokens"][c] or {"a": "a", "a2": "a", "d/c": "c"}.get(p)   # store re-versions a kept-but-unversioned file
            cands = {c}
            if key is not None:
                cm = clean_merge(BASE[key], c, INC[arg][key])
                if cm is not None:
                    cands.add(cm)
            if cands & (post_contents | more):
                acc.count("kept_parked_or_merged_by_switch_store")
                continue
        if kind in MERGE_LIKE:
            key = st["tokens"][c]
            if key is not None:
                src = INC[arg]
                cm = clean_merge(BASE[key], c, src[key])
                if cm is not None and cm in post_contents:
                    acc.count("kept_as_clean_merge")
                    continue
        where = "versioned" if p in versioned else ("unversioned-at-basis-path" if p in st["basis_paths"] else "unversioned")
        if kind == "revert":
            sig = "revert:user-content-lost:%s-file:%s" % (where, "backups" if opt else "no-backup")
        elif kind == "remove":
            sig = "remove:user-content-lost:%s-file:%s" % (where, opt)
        elif kind == "switch-store":
            sig = "switch-store:user-content-lost:%s-file:%s" % (where, opt)
        else:
            sig = "%s:user-content-lost:%s-file" % (kind.replace("-noforce", ""), where)
        acc.violation(sig, dict(det, lost_path=p, lost_content=c, files_after=sorted(post_files)))
    return n_u


@contextlib.contextmanager
def quiet_fd2():
    import sys
    sys.stderr.flush()
    saved = os.dup(2)
    null = os.open(os.devnull, os.O_WRONLY)
    os.dup2(null, 2)
    os.close(null)
    try:
        yield
    finally:
        sys.stderr.flush()
        os.dup2(saved, 2)
        os.close(saved)


def _work(chunk):
    acc = par.Acc()
    with quiet_fd2():
        W = workdir()
        root = os.path.join(W, "t")
        for ops in chunk:
            try:
                st = make_state(W, ops)
            except Invalid:
                acc.count("invalid_sequences")
                continue
            acc.count("states")
            save(W, "state")
            t = open_tree(W)
            pre = wt.dir_snapshot(root)
            with t.lock_read():
                versioned = {}
                bt = t.basis_tree()
                with bt.lock_read():
                    basis_paths = {p for p, _ie in bt.iter_entries_by_dir() if p}
                    for p, ie in t.iter_entries_by_dir():
                        if p:
                            try:
                                versioned[p] = bt.id2path(ie.file_id)
                            except Exception:  # noqa  (not in the basis)
                                versioned[p] = None
                st["basis_paths"] = basis_paths
                mm = dict(t.merge_modified())
                acc.outcomes.add(("state", len(t.get_parent_ids()), len(t.conflicts()), len(mm)))
            pre_files = {p for p, v in pre.items() if v[0] == "file"}
            first = True
            for cmd in commands(pre_files, versioned):
                if not first:
                    restore(W, "state")
                first = False
                exc = None
                try:
                    run_command(W, cmd)
                except BaseException as e:  # noqa
                    if isinstance(e, (KeyboardInterrupt, SystemExit, HarnessError)):
                        raise
                    exc = e
                post = wt.dir_snapshot(root)
                acc.n += 1
                parked = None
                if cmd[0] == "switch-store" and cmd[2].endswith("roundtrip"):
                    def fetch(W=W, cmd=cmd, root=root):
                        from breezy import switch as _switch
                        try:
                            _switch.switch(open_tree(W).controldir, open_branch(W, cmd[1]), quiet=True, store_uncommitted=True)
                        except Exception:  # noqa
                            pass
                        return set(files_of(root).values())
                    parked = {"fetch": fetch}
                n_u = judge(ops, cmd, st, pre, post, versioned, mm, acc, exc, parked)
                if n_u:
                    acc.nt((ops, cmd))
                    acc.count("user_contents_checked", n_u)
                acc.outcomes.add((cmd[0], tuple(sorted(set(post) - set(pre)))))
                if n_u and len(ops) > 1:
                    acc.sample({"user_ops": list(ops), "command": list(cmd), "new_paths": sorted(set(post) - set(pre))})
    return acc


# ---- criss-cross merges (two LCAs) ------------------------------------------------------
# History: r0 (base text) -> xa (LCA 1) and r0 -> xb (LCA 2); THIS tip xt = merge(xa, xb), OTHER tip xo = merge(xb, xa).
# The tree is at xt with an uncommitted working text; `merge --force` of xo.  Texts of the one file `f` are drawn
# from a small alphabet of three-line texts.
XT = {
    "b": b"l1\nl2\nl3\n",       # the base text
    "a": b"A1\nl2\nl3\n",       # line 1 changed
    "c": b"l1\nl2\nC3\n",       # line 3 changed
    "ac": b"A1\nl2\nC3\n",      # both
    "x": b"X1\nl2\nl3\n",       # another change of line 1
    "xc": b"X1\nl2\nC3\n",
    "u": b"l1\nU2\nl3\n",       # line 2 changed (only ever a working text)
    "au": b"A1\nU2\nl3\n",
}
X_LCA1 = ("b", "a")
X_LCA2 = ("b", "c", "a", "x")
X_THIS = ("a", "c", "ac")
X_OTHER = ("a", "c", "ac", "x", "xc")
X_WORK = ("b", "a", "c", "ac", "xc", "u", "au")


def criss_cross_items():
    return [("X", t1, t2, tt, to) for t1 in X_LCA1 for t2 in X_LCA2 for tt in X_THIS for to in X_OTHER]


def accepted_bases(tb, t1, t2):
    """Texts that may serve as the base of the text merge (all readings): the common base; when at most one distinct
    LCA text differs from it (the LCAs do not disagree), that LCA text as well."""
    lcas = {t for t in (t1, t2) if t != tb}
    out = {tb}
    if len(lcas) <= 1:
        out |= lcas
    return out


def _work_x(chunk):
    from breezy import errors
    acc = par.Acc()
    with quiet_fd2():
        W = os.path.join(workdir(), "x")
        for _tag, k1, k2, kt, ko in chunk:
            shutil.rmtree(W, ignore_errors=True)
            os.makedirs(W)
            m = world.make_branch("file://" + os.path.join(W, "xm") + "/", "2a")

            def sp(k):
                return {"f": world.F(b"f-id", XT[k]), "g": world.F(b"g-id", b"untouched\n")}
            world.commit_spec(m, b"r0", [], sp("b"), timestamp=TS)
            world.commit_spec(m, b"xa", [b"r0"], sp(k1), timestamp=TS + 1)
            world.commit_spec(m, b"xb", [b"r0"], sp(k2), timestamp=TS + 2)
            world.commit_spec(m, b"xo", [b"xb", b"xa"], sp(ko), timestamp=TS + 3)
            world.commit_spec(m, b"xt", [b"xa", b"xb"], sp(kt), timestamp=TS + 4)
            m = open_branch(W, "xm")
            if m.last_revision() != b"xt":
                raise HarnessError("criss-cross world: tip is %r" % m.last_revision())
            m.controldir.sprout("file://" + os.path.join(W, "xo") + "/", revision_id=b"xo", create_tree_if_local=False)
            m.create_checkout(os.path.join(W, "xt"), lightweight=True)
            shutil.copytree(os.path.join(W, "xt"), os.path.join(W, "xt.tpl"), symlinks=True)
            root = os.path.join(W, "xt")
            acc.count("criss_cross_histories")
            for kw in X_WORK:
                det = {"criss_cross": {"base": "b", "lca1": k1, "lca2": k2, "this_committed": kt, "other": ko, "working": kw},
                       "texts": {k: XT[k] for k in sorted({"b", k1, k2, kt, ko, kw})}, "user_ops": ["criss-cross"],
                       "command": ["merge", "xo", "force"]}
                shutil.rmtree(root, ignore_errors=True)
                shutil.copytree(os.path.join(W, "xt.tpl"), root, symlinks=True)
                tw = XT[kw]
                with open(os.path.join(root, "f"), "wb") as f:
                    f.write(tw)
                from breezy.workingtree import WorkingTree
                t = WorkingTree.open(root)
                acc.n += 1
                try:
                    with contextlib.redirect_stdout(io.StringIO()), contextlib.redirect_stderr(io.StringIO()):
                        t.merge_from_branch(open_branch(W, "xo"), force=True)
                except BaseException as e:  # noqa
                    if isinstance(e, (KeyboardInterrupt, SystemExit, HarnessError)):
                        raise
                    if isinstance(e, errors.BzrError):
                        acc.outcomes.add(("criss-cross", type(e).__name__))
                        acc.count("refusals")
                    else:
                        acc.violation("merge:%s:%s:criss-cross" % (type(e).__name__, frame(e.__traceback__)), dict(det, error=str(e)[:300]))
                post = files_of(root)
                acc.outcomes.add(("criss-cross", tuple(sorted(post)), post.get("f") == tw))
                if kw == kt:
                    continue            # no uncommitted edit
                acc.nt(("X", k1, k2, kt, ko, kw))
                acc.count("user_contents_checked")
                contents = set(post.values())
                if tw in contents:
                    continue
                ok = False
                for base in accepted_bases(XT["b"], XT[k1], XT[k2]):
                    cm = clean_merge(base, tw, XT[ko])
                    if cm is not None and cm in contents:
                        ok = True
                if ok:
                    acc.count("kept_as_clean_merge")
                    continue
                acc.violation("merge:user-content-lost:versioned-file:criss-cross",
                              dict(det, lost_path="f", lost_content=tw, files_after={k: v for k, v in sorted(post.items())}))
                acc.sample(det) if False else None
        shutil.rmtree(W, ignore_errors=True)
    return acc


def sequences(depth):
    for k in range(0, depth + 1):
        for s in itertools.product(OPS, repeat=k):
            if any(s[i] == s[i + 1] for i in range(len(s) - 1)):
                continue
            if sum(1 for o in s if o[0] in "MC") > 1:
                continue
            yield s


def run(ctx):
    depth = ctx.q(2, 3)
    items = list(sequences(depth))
    a0 = _work([("Ea", "M2"), ("Uu",)])
    a1 = _work([("Ea", "M2"), ("Uu",)])
    if (a0.n, a0.violations, sorted(a0.outcomes, key=repr)) != (a1.n, a1.violations, sorted(a1.outcomes, key=repr)):
        raise HarnessError("C12 not deterministic")
    acc = par.merge(par.pmap(_work, items, seed=ctx.seed, chunks_per_job=8))
    xitems = criss_cross_items()
    accx = par.merge(par.pmap(_work_x, xitems, seed=ctx.seed, chunks_per_job=4))
    n_main = acc.n
    acc.merge(accx)
    best = {}
    for sig, d in acc.violations:
        k = (len(d["user_ops"]), repr(d["user_ops"]), repr(d["command"]), repr(d.get("criss_cross")))
        if sig not in best or k < best[sig][0]:
            best[sig] = (k, d)
    for sig in sorted(best):
        ctx.violation(sig, best[sig][1])
    ctx.assumptions.append("bzr 2a branch + lightweight checkout (dirstate tree); user content = unique tokens written by the harness; "
                           "files (re)written by the state's merge step or recorded in merge_modified() are exempt")
    ctx.assumptions.append("`revert --no-backup` may discard versioned files in the selection, `remove --force` anything in the selection; "
                           "BzrError subclasses raised by a command are refusals (outcomes), other exceptions are findings")
    return {
        "evaluations": acc.n,
        "states": acc.counters.get("states", 0),
        "transitions": acc.n,
        "traces_validated_against_impl": acc.n,
        "invalid_sequences": acc.counters.get("invalid_sequences", 0),
        "max_user_ops": depth,
        "criss_cross_histories": acc.counters.get("criss_cross_histories", 0),
        "criss_cross_merges": accx.n,
        "state_command_transitions": n_main,
        "user_contents_checked": acc.counters.get("user_contents_checked", 0),
        "kept_as_clean_merge": acc.counters.get("kept_as_clean_merge", 0),
        "refusals": acc.counters.get("refusals", 0),
        "distinct_nontrivial": len(acc.nontrivial),
        "distinct_outcomes": len(acc.outcomes),
        "rule": "every sequence of <=%d user operations over %r (at most one merge, no immediate repeats) x every command; "
                "non-trivial = at least one protected user-written file content existed before the command" % (depth, OPS),
        "samples": acc.samples[:4],
        "exhaustive": True,
    }
