"""C21 - Pull and push never silently drop history.

Bounded exhaustive (state, operation) enumeration on real branches: every DAG
history with <= N revisions (ordered parents, <= 2 parents; variants with one
ghost parent, left- or right-hand), every target tip t and source tip s
(including the empty branch) whose joint ancestry (with the master's, for bound
targets) covers the DAG, every stop revision in the source ancestry (and none),
overwrite in {False, True, set(), {history}, {tags}, {history,tags}} (the largest
DAG size, append-only and bound targets: False, True, {tags}), append_revisions_only in {off, on}, unbound targets
and targets bound to a master at every tip m, through Branch.pull, Branch.push,
GenericInterBranch._update_revisions, plus generate_revision_history,
set_last_revision_info and update() for the append-only clause.  Source,
target and master live in three separate real 2a repositories on an mc.vfs
store; tips are reset by writing the branch's last-revision file.  A git<->git
sub-run (real on-disk git repositories, histories written with dulwich, plus bzr
copies imported by the real fetch) covers the format pairs git->git, git->bzr and
bzr->git (pull and push, stop revisions, the six overwrite values; signatures
prefixed git: / git->bzr: / bzr->git:) for DAGs with <= 3 (quick) / 4 (thorough) commits.
Oracle, from the statement, on the declarative DAG: without overwrite the tip
moves to the requested revision iff it descends from the current tip, stays
when the target already contains it, otherwise DivergedBranches and no change;
after every operation (also failed ones, also for the master) the recorded
revno equals the length of the tip's left-hand history; with append-only no
operation leaves a tip whose left-hand history lacks the previous tip.
"""
from mc import gen, par
from mc.evidence import HarnessError

from . import _dagworld as dw

ID = "C21"
LEVEL = "model_checking"
TECHNIQUE = "exhaustive enumeration of (branch-tip state, operation) pairs over all small DAG histories on real branches, against a reference graph oracle"

rid = dw.rid
NULL = dw.NULL

LASTREV = "%s/.bzr/branch/last-revision"


class W:
    """One materialised DAG: three repositories + the branches used as targets."""

    def __init__(self, dag, ghosts):
        from breezy.branch import Branch
        from mc import world as mw
        self.dag = dag
        self.ghosts = frozenset(ghosts)
        self.ref = dw.Ref(dag, ghosts)
        self.store, _ = dw.build(dag, ghosts, path="s")
        st = self.store
        self.raw = st.raw()
        src = Branch.open(st.url + "s/")
        self.names = {}
        for name, aro, bound in (("t", False, None), ("ta", True, None), ("m", False, None), ("ma", True, None),
                                 ("bt", False, "m"), ("bta", True, "m"), ("btm", False, "ma")):
            b = mw.make_branch(st.transport(name), "2a")
            b.repository.fetch(src.repository)
            if aro:
                b.set_append_revisions_only(True)
            if bound:
                b.bind(Branch.open(st.url + bound + "/"))
            self.names[name] = (aro, bound)
        self.present = [i for i in range(len(dag)) if i not in self.ghosts]
        self.reads = 0
        self.objs = {}

    def url(self, name):
        return self.store.url + name + "/"

    def node_of(self, revid):
        return dw.num(revid)

    def revid(self, node):
        return rid(node)

    def info(self, tip):
        if tip is None:
            return (0, NULL)
        return (len(self.ref.lefthand(tip)), rid(tip))

    def set_tip(self, name, tip):
        """Harness-side state reset: write the last-revision file directly."""
        self.raw.put_bytes(LASTREV % name, b"%d %s\n" % self.info(tip))

    def read_tip(self, name):
        """Tip as stored (the file Branch._read_last_revision_info parses); every 16th read is
        cross-checked against a freshly opened Branch object."""
        data = self.raw.get_bytes(LASTREV % name)
        revno, revid = data.rstrip(b"\n").split(b" ", 1)
        info = (int(revno), revid)
        self.reads += 1
        if self.reads % 16 == 1:
            from breezy.branch import Branch
            got = Branch.open(self.url(name)).last_revision_info()
            if got != info:
                raise HarnessError("raw tip %r differs from Branch.last_revision_info() %r" % (info, got))
        return info

    def branch(self, name):
        """A Branch object, reused for a while (unlocked objects re-read their state on locking)."""
        from breezy.branch import Branch
        ent = self.objs.get(name)
        if ent is None or ent[1] >= 24:
            ent = self.objs[name] = [Branch.open(self.url(name)), 0]
        ent[1] += 1
        return ent[0]

    def close(self):
        self.store.close()


def relation(ref, t, x):
    """'contained' | 'descends' | 'diverged' of requested x w.r.t. current tip t (None = empty)."""
    if x is None:
        return "contained"
    if t is None:
        return "descends"
    if x == t or x in ref.anc(t):
        return "contained"
    if t in ref.anc(x):
        return "descends"
    return "diverged"


def lefthand_ok(ref, old, new):
    """append-only clause: the new tip's left-hand history contains the previous tip."""
    if old is None or new == old:
        return True
    if new is None:
        return False
    return old in ref.lefthand(new)


def check_info(acc, w, name, info, detail, what):
    """revno == length of the left-hand history of the tip; tip is a known revision."""
    revno, revid = info
    node = None if revid == NULL else w.node_of(revid)
    if revid != NULL and (not isinstance(node, int) or node not in w.present):
        acc.violation("%s:tip-is-not-a-revision-of-the-history" % what, dict(detail, branch=name, info=info))
        return "bad"
    exp = w.info(node)[0]
    if revno != exp:
        ghost = node is not None and w.ref.lefthand_ends_in_ghost(node)
        acc.violation("%s:revno-differs-from-length-of-left-hand-history%s" % (what, ":ghost-left-parent" if ghost else ""),
                      dict(detail, branch=name, info=info, expected_revno=exp))
    return node


FAILS = ("DivergedBranches", "AppendRevisionsOnlyViolation", "GhostRevisionsHaveNoRevno")

# The overwrite argument of pull/push: a bool or a set of aspects; history may only be
# overwritten when it is True or contains "history" ({"tags"} is what --overwrite-tags passes).
OVERWRITES = (("False", False), ("True", True), ("set()", frozenset()), ("{history}", frozenset(["history"])),
              ("{tags}", frozenset(["tags"])), ("{history,tags}", frozenset(["history", "tags"])))
OVERWRITES_SHORT = (("False", False), ("True", True), ("{tags}", frozenset(["tags"])))


def overwrites_history(value):
    return value is True or (not isinstance(value, bool) and "history" in value)


def ow_arg(value):
    """A fresh argument object for the call (sets are passed as real, mutable sets)."""
    return value if isinstance(value, bool) else set(value)


def run_op(w, op, tname, stop, overwrite, sname="s"):
    """Perform one operation on fresh Branch objects; returns outcome string."""
    from breezy import errors
    from breezy.branch import InterBranch
    src = w.branch(sname)
    tgt = w.branch(tname)
    stop_id = None if stop is None else w.revid(stop)
    try:
        if op == "pull":
            tgt.pull(src, overwrite=ow_arg(overwrite), stop_revision=stop_id)
        elif op == "push":
            src.push(tgt, overwrite=ow_arg(overwrite), stop_revision=stop_id)
        elif op == "update_revisions":
            InterBranch.get(src, tgt)._update_revisions(stop_revision=stop_id, overwrite=overwrite)
        elif op == "update":
            tgt.update()
        elif op == "generate_revision_history":
            with tgt.lock_write():
                tgt.generate_revision_history(stop_id if stop_id is not None else NULL)
        elif op == "generate_revision_history_checked":
            with tgt.lock_write():
                tgt.generate_revision_history(stop_id if stop_id is not None else NULL,
                                              last_rev=tgt.last_revision(), other_branch=src)
        elif op == "set_last_revision_info":
            with tgt.lock_write():
                tgt.set_last_revision_info(*w.info(stop))
        else:
            raise HarnessError(op)
        return "ok"
    except (errors.DivergedBranches, errors.AppendRevisionsOnlyViolation, errors.GhostRevisionsHaveNoRevno) as e:
        return type(e).__name__
    except Exception as e:  # noqa
        return "exc:" + dw.exc_sig(e)


def judge_target(acc, w, sig0, detail, tname, old, x, overwrite, aro, outcome, new_info, direct=False):
    """Apply the statement to one target branch (also used for the master of a bound target)."""
    ref = w.ref
    new = check_info(acc, w, tname, new_info, detail, sig0)
    if new == "bad":
        return
    if outcome.startswith("exc:"):
        acc.violation("%stip-update:%s" % (sig0.rsplit(":", 1)[0] + ":" if ("git" in sig0.split(":")[0]) else "", outcome[4:]),
                      dict(detail, branch=tname))
        return
    rel = relation(ref, old, x)
    ghosty = x is not None and ref.lefthand_ends_in_ghost(x)
    # append-only clause, whatever the options and the outcome
    if aro and not lefthand_ok(ref, old, new):
        acc.violation("%s:append-only:tip-moved-to-revision-whose-left-hand-history-lacks-previous-tip" % sig0,
                      dict(detail, branch=tname, old=old, new=new, outcome=outcome))
        return
    if outcome != "ok":
        if new != old:
            acc.violation("%s:failed-with-%s-but-tip-changed" % (sig0, outcome), dict(detail, branch=tname, old=old, new=new))
            return
        if outcome == "DivergedBranches":
            if direct:
                pass        # generate_revision_history(last_rev=..) has its own contract
            elif overwrite or rel != "diverged":
                acc.violation("%s:DivergedBranches-although-%s%s" % (sig0, rel, "-with-overwrite" if overwrite else ""),
                              dict(detail, branch=tname, old=old, requested=x))
        elif outcome == "AppendRevisionsOnlyViolation":
            would = x if (overwrite or rel == "descends") else old
            if not aro or lefthand_ok(ref, old, would):
                acc.violation("%s:AppendRevisionsOnlyViolation-without-violation" % sig0,
                              dict(detail, branch=tname, old=old, requested=x, aro=aro))
        elif outcome == "GhostRevisionsHaveNoRevno":
            if not ghosty:
                acc.violation("%s:GhostRevisionsHaveNoRevno-without-ghost-in-left-hand-history" % sig0,
                              dict(detail, branch=tname, old=old, requested=x))
        return
    # success
    if overwrite:
        return          # the statement only constrains revno / append-only here
    if rel == "diverged":
        acc.violation("%s:diverged-but-no-error:%s" % (sig0, "tip-moved" if new != old else "tip-kept"),
                      dict(detail, branch=tname, old=old, requested=x, new=new))
    elif rel == "contained":
        if new != old:
            acc.violation("%s:target-already-contains-requested-revision-but-tip-moved" % sig0,
                          dict(detail, branch=tname, old=old, requested=x, new=new))
    else:
        if new != x:
            acc.violation("%s:requested-revision-descends-from-tip-but-tip-%s" % (
                sig0, "not-moved" if new == old else "moved-elsewhere"),
                dict(detail, branch=tname, old=old, requested=x, new=new))


def covering(ref, n, ghosts, tips):
    cov = set()
    for t in tips:
        if t is not None:
            cov |= ref.anc_g(t)
    return len(cov) == n


def check_dag(acc, dag, ghosts, thorough):
    n = len(dag)
    full = n <= (4 if thorough else 3)     # the largest size gets the trimmed option space
    w = W(dag, ghosts)
    ref = w.ref
    try:
        tips = [None] + w.present
        base_detail = {"dag": dag, "ghosts": sorted(ghosts)}
        for s in tips:
            w.set_tip("s", s)
            stops = [None] + (sorted(ref.anc(s)) if s is not None else [])
            for t in tips:
                cov_ts = covering(ref, n, ghosts, (t, s))
                # ---- unbound targets
                if cov_ts:
                    for tname, aro in (("t", False), ("ta", True)):
                        for stop in stops:
                            x = s if stop is None else stop
                            for owname, owval in (OVERWRITES if (not aro and full) else OVERWRITES_SHORT):
                                overwrite = overwrites_history(owval)
                                for op in (("pull", "push", "update_revisions") if (not aro or full)
                                           else ("pull", "push")):
                                    if op == "update_revisions" and not isinstance(owval, bool):
                                        continue        # takes the history flag only
                                    w.set_tip(tname, t)
                                    outcome = run_op(w, op, tname, stop, owval)
                                    new_info = w.read_tip(tname)
                                    acc.n += 1
                                    detail = dict(base_detail, op=op, target_tip=t, source_tip=s, stop=stop,
                                                  overwrite=owname, append_only=aro)
                                    sig0 = op
                                    judge_target(acc, w, sig0, detail, tname, t, x, overwrite, aro, outcome, new_info)
                                    acc.outcomes.add((op, relation(ref, t, x), owname, aro, outcome.split("@")[0]))
                                    if w.read_tip("s") != w.info(s):
                                        acc.violation("%s:source-tip-changed" % op, detail)
                                        w.set_tip("s", s)
                                    if t is not None and x is not None and x != t:
                                        acc.nt((dag, tuple(sorted(ghosts)), t, s, stop))
                            # direct tip setters (append-only clause)
                            for stop in (stops[1:] if aro else []):
                                for op in ("generate_revision_history", "generate_revision_history_checked",
                                           "set_last_revision_info"):
                                    w.set_tip(tname, t)
                                    outcome = run_op(w, op, tname, stop, True)
                                    new_info = w.read_tip(tname)
                                    acc.n += 1
                                    detail = dict(base_detail, op=op, target_tip=t, revision=stop, append_only=aro)
                                    judge_target(acc, w, op, detail, tname, t, stop, True, aro, outcome, new_info, direct=True)
                                    acc.outcomes.add((op, relation(ref, t, stop), aro, outcome.split("@")[0]))
                # ---- bound targets: master at every tip
                for m in tips:
                    if not covering(ref, n, ghosts, (t, s, m)):
                        continue
                    bound_sets = [("bt", False, "m", False, True)]
                    if full:
                        bound_sets += [("bta", True, "m", False, thorough), ("btm", False, "ma", True, thorough)]
                    for tname, aro, mname, maro, all_stops in bound_sets:
                        for stop in (stops if (all_stops and full) else stops[:1]):
                            x = s if stop is None else stop
                            for owname, owval in OVERWRITES_SHORT:
                                overwrite = overwrites_history(owval)
                                for op in ("pull", "push"):
                                    w.set_tip(tname, t)
                                    w.set_tip(mname, m)
                                    outcome = run_op(w, op, tname, stop, owval)
                                    new_t = w.read_tip(tname)
                                    new_m = w.read_tip(mname)
                                    acc.n += 1
                                    detail = dict(base_detail, op=op + "(bound)", target_tip=t, master_tip=m, source_tip=s,
                                                  stop=stop, overwrite=owname, append_only=aro, master_append_only=maro)
                                    sig0 = op + ":bound"
                                    acc.outcomes.add((sig0, relation(ref, t, x), relation(ref, m, x), owname, aro, maro,
                                                      outcome.split("@")[0]))
                                    judge_bound(acc, w, sig0, detail, tname, mname, t, m, x, overwrite, aro, maro,
                                                outcome, new_t, new_m)
                    # update(): local := master (overwrite pull from the master)
                    if s is None:
                        for tname, aro, mname in (("bt", False, "m"), ("bta", True, "m")):
                            w.set_tip(tname, t)
                            w.set_tip(mname, m)
                            outcome = run_op(w, "update", tname, None, True)
                            new_t = w.read_tip(tname)
                            new_m = w.read_tip(mname)
                            acc.n += 1
                            detail = dict(base_detail, op="update", target_tip=t, master_tip=m, append_only=aro)
                            judge_target(acc, w, "update", detail, tname, t, m, True, aro, outcome, new_t)
                            if new_m != w.info(m):
                                acc.violation("update:master-tip-changed", dict(detail, new_master=new_m))
                            if outcome == "ok" and not aro and new_t != w.info(m) and m is not None:
                                acc.violation("update:local-tip-is-not-master-tip-afterwards", dict(detail, new=new_t))
                            acc.outcomes.add(("update", relation(ref, t, m), aro, outcome.split("@")[0]))
                            # pull from the master itself (source_is_master)
                            for overwrite in (False, True):
                                w.set_tip(tname, t)
                                w.set_tip(mname, m)
                                outcome = run_op(w, "pull", tname, None, overwrite, sname=mname)
                                new_t = w.read_tip(tname)
                                acc.n += 1
                                detail = dict(base_detail, op="pull-from-master", target_tip=t, master_tip=m,
                                              overwrite=overwrite, append_only=aro)
                                judge_target(acc, w, "pull:from-master", detail, tname, t, m, overwrite, aro, outcome, new_t)
                                if w.read_tip(mname) != w.info(m):
                                    acc.violation("pull:from-master:master-tip-changed", detail)
        acc.sample({"dag": dag, "ghosts": sorted(ghosts)})
    finally:
        w.close()


def judge_bound(acc, w, sig0, detail, tname, mname, t, m, x, overwrite, aro, maro, outcome, new_t, new_m):
    """pull/push into a bound target: the master is updated first, by the same rules."""
    ref = w.ref
    nm = check_info(acc, w, mname, new_m, detail, sig0 + ":master")
    nt = check_info(acc, w, tname, new_t, detail, sig0)
    if nm == "bad" or nt == "bad":
        return
    if outcome.startswith("exc:"):
        acc.violation("tip-update:%s" % outcome[4:], detail)
        return
    rel_m = relation(ref, m, x)
    rel_t = relation(ref, t, x)
    if outcome == "GhostRevisionsHaveNoRevno" and x is not None and ref.lefthand_ends_in_ghost(x):
        # the revno of the requested revision cannot be computed (left-hand history ends in a ghost):
        # a refusal by the master or by the local branch; nothing may have moved except a master
        # that had already accepted the revision
        if nt != t:
            acc.violation("%s:failed-with-GhostRevisionsHaveNoRevno-but-tip-changed" % sig0, dict(detail, new_local=nt))
        if nm != m:
            judge_target(acc, w, sig0 + ":master", detail, mname, m, x, overwrite, maro, "ok", new_m)
        return

    def would(rel, old):
        return x if (overwrite or rel == "descends") and x is not None else old
    # master first
    m_fail = (not overwrite and rel_m == "diverged") or (maro and not lefthand_ok(ref, m, would(rel_m, m)))
    if m_fail:
        judge_target(acc, w, sig0 + ":master", detail, mname, m, x, overwrite, maro,
                     outcome if outcome != "ok" else "ok", new_m)
        if outcome == "ok":
            return
        if nt != t:
            acc.violation("%s:master-refused-but-local-tip-changed" % sig0, dict(detail, new_local=nt))
        return
    # master accepted the revision
    judge_target(acc, w, sig0 + ":master", detail, mname, m, x, overwrite, maro, "ok", new_m)
    judge_target(acc, w, sig0, detail, tname, t, x, overwrite, aro, outcome, new_t)


# ---- git <-> git ------------------------------------------------------------

class GitW:
    """Source and target git repositories (real on-disk repositories with working trees on
    /dev/shm) holding the same commit DAG; histories are written with dulwich (empty trees),
    tips are set through refs/heads/master."""

    def __init__(self, dag):
        import os

        from dulwich.objects import Commit, Tree
        from mc import boot
        from mc import wt as mwt
        self.dag = dag
        self.ghosts = frozenset()
        self.ref = dw.Ref(dag)
        self.dir = boot.scratch("c21git")
        self.bzr_names = set()
        self.trees = {}
        self.shas = None
        for name in ("s", "t"):
            tree = mwt.make_tree("git", os.path.join(self.dir, name))
            repo = tree.branch.repository._git
            et = Tree()
            repo.object_store.add_object(et)
            shas = []
            for i, ps in enumerate(dag):
                c = Commit()
                c.tree = et.id
                c.parents = [shas[p] for p in ps]
                c.author = c.committer = b"C <c@example.com>"
                c.commit_time = c.author_time = 1000000000 + i
                c.commit_timezone = c.author_timezone = 0
                c.encoding = b"UTF-8"
                c.message = b"r%d" % i
                repo.object_store.add_object(c)
                shas.append(c.id)
            self.trees[name] = tree
            self.shas = shas
        b = self.branch("s")
        self.revids = [b.repository.lookup_foreign_revision_id(x) for x in self.shas]
        self.nodes = {r: i for i, r in enumerate(self.revids)}
        self.present = list(range(len(dag)))
        # bzr (2a) copies of the same history (revisions imported from the git source by the real
        # inter-repository fetch), one used as source and one as target of the cross-format pairs
        from mc import world as mw
        for name in ("bs", "bt"):
            bz = mw.make_branch(os.path.join(self.dir, name), "2a")
            for h in gen.heads(dag, range(len(dag))):
                bz.repository.fetch(b.repository, revision_id=self.revids[h])
            self.bzr_names.add(name)

    def url(self, name):
        import os
        return os.path.join(self.dir, name)

    def node_of(self, revid):
        return self.nodes.get(revid, revid)

    def revid(self, node):
        return self.revids[node]

    def info(self, tip):
        if tip is None:
            return (0, NULL)
        return (len(self.ref.lefthand(tip)), self.revids[tip])

    def set_tip(self, name, tip):
        if name in self.bzr_names:
            import os
            with open(os.path.join(self.dir, name, ".bzr", "branch", "last-revision"), "wb") as f:
                f.write(b"%d %s\n" % self.info(tip))
            return
        repo = self.trees[name].branch.repository._git
        if tip is None:
            try:
                del repo.refs[b"refs/heads/master"]
            except KeyError:
                pass
        else:
            repo.refs[b"refs/heads/master"] = self.shas[tip]

    def branch(self, name):
        from breezy.branch import Branch
        return Branch.open(self.url(name))

    def read_tip(self, name):
        return self.branch(name).last_revision_info()

    def close(self):
        import shutil
        shutil.rmtree(self.dir, ignore_errors=True)


FORMAT_PAIRS = (("git->git", "s", "t"), ("git->bzr", "s", "bt"), ("bzr->git", "bs", "t"))


def check_dag_git(acc, dag):
    n = len(dag)
    w = GitW(dag)
    ref = w.ref
    try:
        tips = [None] + w.present
        for s in tips:
            stops = [None] + (sorted(ref.anc(s)) if s is not None else [])
            for t in tips:
                if not covering(ref, n, (), (t, s)):
                    continue
                for stop in stops:
                    x = s if stop is None else stop
                    for pair, sname, tname in FORMAT_PAIRS:
                        if pair != "git->git" and stop is not None and stop != s and n > 2:
                            continue        # explicit stop revisions below the tip: git->git only beyond 2 commits
                        w.set_tip(sname, s)
                        for owname, owval in OVERWRITES:
                            overwrite = overwrites_history(owval)
                            for op in ("pull", "push"):
                                w.set_tip(tname, t)
                                outcome = run_op(w, op, tname, stop, owval, sname=sname)
                                new_info = w.read_tip(tname)
                                acc.n += 1
                                acc.count("git_ops")
                                detail = {"dag": dag, "vcs": pair, "op": op, "target_tip": t, "source_tip": s,
                                          "stop": stop, "overwrite": owname}
                                sig0 = ("git:" if pair == "git->git" else pair + ":") + op
                                judge_target(acc, w, sig0, detail, tname, t, x, overwrite, False, outcome, new_info)
                                acc.outcomes.add((sig0, relation(ref, t, x), owname, outcome.split("@")[0]))
                                if w.read_tip(sname) != w.info(s):
                                    acc.violation("%s:source-tip-changed" % sig0, detail)
                                    w.set_tip(sname, s)
                                if t is not None and x is not None and x != t:
                                    acc.nt((pair, dag, t, s, stop))
    finally:
        w.close()


def _work_git(chunk):
    dw.quiet_trace()
    acc = dw.Acc()
    for dag in chunk:
        check_dag_git(acc, dag)
    return acc


def _work(chunk):
    dw.quiet_trace()
    acc = dw.Acc()
    for dag, ghosts, thorough in chunk:
        check_dag(acc, dag, ghosts, thorough)
    return acc


def items_for(nmax, ghost_max, thorough):
    items = []
    for n in range(1, nmax + 1):
        for dag in gen.dags(n):
            if len(gen.heads(dag, range(n))) <= (3 if n <= (4 if thorough else 3) else 2):
                items.append((dag, frozenset(), thorough))
            if n <= ghost_max:
                for g in range(n):
                    if dag[g] or not any(g in ps for ps in dag):
                        continue
                    present = [i for i in range(n) if i != g]
                    if len(gen.heads(dag, present)) <= 2:
                        items.append((dag, frozenset([g]), thorough))
    return items


def replay(ctx, data):
    """Re-run the one history of a recorded violation; True if its signature is not reproduced."""
    d = data["first"]
    dag = tuple(tuple(p) for p in d["dag"])
    if d.get("vcs") == "git":
        acc = _work_git([dag])
    else:
        acc = _work([(dag, frozenset(d.get("ghosts", ())), True)])
    hit = [v for v in acc.violations if v[0] == data["signature"]]
    for sig, det in hit:
        print("  ", sig, {k: det[k] for k in det if k not in ("dag",)})
    return not hit


def run(ctx):
    N = ctx.q(4, 5)
    GN = ctx.q(3, 4)
    items = items_for(N, GN, ctx.thorough)
    acc = par.merge(par.pmap(_work, items, seed=ctx.seed, chunks_per_job=8))
    GITN = ctx.q(3, 4)
    git_items = [d for k in range(1, GITN + 1) for d in gen.dags(k) if len(gen.heads(d, range(k))) <= 2]
    acc_git = par.merge(par.pmap(_work_git, git_items, seed=ctx.seed, chunks_per_job=4))
    acc.merge(acc_git)
    a1 = _work(items[:4])
    a2 = _work(items[:4])
    if (a1.n, sorted(map(repr, a1.outcomes)), sorted(x[0] for x in a1.violations)) != \
            (a2.n, sorted(map(repr, a2.outcomes)), sorted(x[0] for x in a2.violations)):
        raise HarnessError("C21: two runs of the same histories differ")
    best = {}
    for sig, d in acc.violations:
        k = (len(d.get("dag", ())), len(d.get("ghosts", ())), repr(d.get("dag")), len(repr(d)), repr(d))
        if sig not in best or k < best[sig][0]:
            best[sig] = (k, d)
    for sig in sorted(best):
        ctx.violation(sig, best[sig][1])
    ctx.assumptions.append("source, target and master repositories hold every revision of the DAG beforehand (fetch is C03's subject); tips are reset by writing the last-revision file")
    ctx.assumptions.append("with overwrite=True the statement constrains only the revno and append-only clauses")
    return {
        "evaluations": acc.n,
        "states": len(acc.nontrivial),
        "transitions": acc.n,
        "traces_validated_against_impl": acc.n,
        "histories": len(items),
        "histories_with_ghost": sum(1 for i in items if i[1]),
        "distinct_nontrivial": len(acc.nontrivial),
        "rule": "non-trivial = (history, target tip, source tip, stop) with a non-empty target and a requested revision different from the target tip",
        "distinct_outcomes": len(acc.outcomes),
        "max_dag_nodes": N, "max_dag_nodes_ghost": GN, "max_dag_nodes_git": GITN,
        "git_operations": acc.counters.get("git_ops", 0),
        "violations_raw": acc.counters.get("violations_raw", 0),
        "samples": acc.samples[:3],
        "exhaustive": True,
    }
