"""C47 - Path and line utilities satisfy their algebraic laws.

The functions are the compiled ones breezy really uses (breezy.osutils re-exports of
_osutils_rs), called through breezy.osutils.  Four exhaustive parts:
A  every set of <= 4 (thorough 6) paths from a universe of 29 relative paths ('' = tree
   root, <= 3 components over {a, a-b}, <= 2 components over {a, b, ab, a-b}; 'ab' and
   'a-b' are the prefix / sort-order traps) given in two orders: minimum_path_selection
   returns a subset, every input path lies inside exactly one selected path, no selected
   path lies inside another; is_inside on all pairs and is_inside_any(S or selection, q)
   for every q of the universe agree with the reference containment
   (d == '' or p == d or p starts with d + '/').
B  every path of <= 4 (thorough 5) tokens over {a, b, ab, '', '.', '..'} joined by '/':
   on normalised paths (only real names) joinpath(splitpath(p)) == p, splitpath(p) is the
   token list and splitpath(joinpath(tokens)) == tokens; other paths: only ValueError or a
   result are accepted (no claim on the value), anything else is a finding.
C  every byte string of <= 6 (thorough 9) bytes over {a, LF, CR} x every chunking into
   non-empty chunks (plus a variant with empty chunks interleaved): chunks_to_lines,
   chunks_to_lines_iter and split_lines concatenate back to the text, are independent of
   the chunking, and give LF-terminated lines.
D  format_highres_date / unpack_highres_date on a boundary grid of timestamps (epoch,
   minute/hour/day/leap-day/year/2^31/2^32 boundaries, each with 10 fractions, and a few
   pre-1970 values) x every offset in +-14 h at 15 min steps (thorough: every minute) and
   None: unpack(format(t, off)) == (t within 1e-9 + ulp, off) and format(unpack(s)) == s.
"""
import itertools
import math

from mc import par
from mc.evidence import HarnessError

from . import _u5

ID = "C47"
LEVEL = "exploration"
TECHNIQUE = "exhaustive small-scope input enumeration on the compiled utilities against reference laws"


# ---------------------------------------------------------------- A: paths

def universe():
    u = {""}
    for k in (1, 2, 3):
        for t in itertools.product(("a", "a-b"), repeat=k):
            u.add("/".join(t))
    for k in (1, 2):
        for t in itertools.product(("a", "b", "ab", "a-b"), repeat=k):
            u.add("/".join(t))
    return sorted(u)


def inside(d, p):
    return d == "" or p == d or p.startswith(d + "/")


def _guard(vs, site, inp, fn):
    """Call fn(); an exception (including a Rust panic) is a finding, returns (ok, value)."""
    try:
        return True, fn()
    except (KeyboardInterrupt, SystemExit, MemoryError):
        raise
    except BaseException as e:  # noqa  (PanicException derives from BaseException)
        if inp is None:
            inp = {"call": site}
        vs.add("%s:raises-%s" % (site, type(e).__name__), dict(input=inp, error=repr(e)[:300]))
        return False, None


def _paths_work(chunk):
    from breezy import osutils
    acc = par.Acc()
    vs = _u5.SmallestViolations(acc)
    U = universe()
    INS = {(d, p): inside(d, p) for d in U for p in U}
    for first, size in chunk:
        # all sets of the given size whose smallest element (by universe index) is `first`
        rest = U[first + 1:]
        for tail in itertools.combinations(rest, size - 1) if size else [()]:
            S = ((U[first],) + tail) if size else ()
            acc.n += 1
            inp = {"paths": list(S)}
            ok, M = _guard(vs, "minimum_path_selection", inp, lambda: osutils.minimum_path_selection(list(S)))
            if not ok:
                continue
            ok, M2 = _guard(vs, "minimum_path_selection", inp, lambda: osutils.minimum_path_selection(list(reversed(S))))
            if ok and set(M2) != set(M):
                vs.add("minimum_path_selection:depends-on-input-order", dict(input=inp, a=sorted(M), b=sorted(M2)))
            M = set(M)
            nested = any(INS[a, b] for a in S for b in S if a != b)
            if nested:
                acc.nt(S)
                if len(S) >= 3:
                    acc.sample({"paths": list(S), "selected": sorted(M)})
            acc.outcomes.add((len(S), len(M)))
            if not M <= set(S):
                vs.add("minimum_path_selection:not-a-subset", dict(input=inp, selected=sorted(M)))
            for p in S:
                k = sum(1 for m in M if inside(m, p))
                if k != 1:
                    vs.add("minimum_path_selection:input-inside-%s-selected-paths" % ("no" if k == 0 else "several"),
                           dict(input=inp, selected=sorted(M), path=p))
                    break
            if any(inside(a, b) for a in M for b in M if a != b):
                vs.add("minimum_path_selection:selected-path-inside-another", dict(input=inp, selected=sorted(M)))
            Ml = sorted(M)
            Sl = list(S)
            same = Ml == sorted(S)
            for q in U:
                e = any(INS[d, q] for d in S)
                ok, r = _guard(vs, "is_inside_any", None, lambda: osutils.is_inside_any(Sl, q))
                if ok and r != e:
                    vs.add("is_inside_any:disagrees-with-containment:%s" % ("false-positive" if r else "false-negative"),
                           dict(input={"dirs": list(S), "path": q}, got=r))
                if not same and M <= set(S):
                    ok, r2 = _guard(vs, "is_inside_any", None, lambda: osutils.is_inside_any(Ml, q))
                    if ok and r2 != e and r == e:
                        vs.add("minimum_path_selection:selection-covers-different-region", dict(input=inp, selected=Ml, path=q))
    vs.flush()
    return acc


def _pairs(acc, vs):
    from breezy import osutils
    U = universe()
    for d in U:
        for p in U:
            acc.n += 1
            if d != p and d != "":
                acc.nt(("pair", d, p))
            ok, r = _guard(vs, "is_inside", {"dir": d, "path": p}, lambda: osutils.is_inside(d, p))
            if ok and r != inside(d, p):
                vs.add("is_inside:disagrees-with-containment:%s" % ("false-positive" if r else "false-negative"),
                       dict(input={"dir": d, "path": p}, got=r))


# ---------------------------------------------------------------- B: split / join

TOKENS = ("a", "b", "ab", "", ".", "..")
NAMES = ("a", "b", "ab")


def _splitjoin_work(chunk):
    from breezy import osutils
    acc = par.Acc()
    vs = _u5.SmallestViolations(acc)
    for toks in chunk:
        acc.n += 1
        p = "/".join(toks)
        inp = {"path": p}
        normalised = all(t in NAMES for t in toks)
        try:
            parts = osutils.splitpath(p)
            outcome = "ok"
        except ValueError:
            parts, outcome = None, "ValueError"
        except (KeyboardInterrupt, SystemExit, MemoryError):
            raise
        except BaseException as e:  # noqa
            vs.add("splitpath:raises-%s" % type(e).__name__, dict(input=inp, error=repr(e)[:300]))
            continue
        acc.outcomes.add(("split", normalised, outcome))
        if normalised:
            if len(toks) > 1:
                acc.nt(toks)
            if parts is None:
                vs.add("splitpath:refuses-normalised-path", dict(input=inp))
                continue
            if list(parts) != list(toks):
                vs.add("splitpath:wrong-components", dict(input=inp, got=list(parts)))
            ok, j = _guard(vs, "joinpath", {"parts": list(parts)}, lambda: osutils.joinpath(list(parts)))
            if ok and j != p:
                vs.add("joinpath(splitpath(p)):not-identity", dict(input=inp, parts=list(parts), got=j))
            ok, j2 = _guard(vs, "joinpath", {"parts": list(toks)}, lambda: osutils.joinpath(list(toks)))
            if ok:
                ok, s2 = _guard(vs, "splitpath", {"path": j2}, lambda: osutils.splitpath(j2))
                if ok and list(s2) != list(toks):
                    vs.add("splitpath(joinpath(parts)):not-identity", dict(input={"parts": list(toks)}, joined=j2, got=list(s2)))
        if len(toks) >= 3:
            acc.sample({"path": p, "splitpath": parts if parts is None else list(parts)})
    vs.flush()
    return acc


# ---------------------------------------------------------------- C: lines

BYTES = (b"a", b"\n", b"\r")


def ref_lines(text):
    parts = text.split(b"\n")
    out = [x + b"\n" for x in parts[:-1]]
    if parts[-1]:
        out.append(parts[-1])
    return out


def chunkings(text):
    n = len(text)
    if n == 0:
        yield []
        yield [b""]
        yield [b"", b""]
        return
    for mask in range(1 << (n - 1)):
        out = []
        start = 0
        for i in range(n - 1):
            if mask >> i & 1:
                out.append(text[start:i + 1])
                start = i + 1
        out.append(text[start:])
        yield out
        inter = [b""]
        for c in out:
            inter.extend((c, b""))
        yield inter


def _lines_work(chunk):
    from breezy import osutils
    acc = par.Acc()
    vs = _u5.SmallestViolations(acc)
    for text in chunk:
        inp = {"text": text}
        ok, whole = _guard(vs, "split_lines", inp, lambda: osutils.split_lines(text))
        if not ok:
            continue
        if b"".join(whole) != text:
            vs.add("split_lines:concatenation-differs", dict(input=inp, got=whole))
        if list(whole) != ref_lines(text):
            vs.add("split_lines:not-LF-terminated-lines", dict(input=inp, got=whole))
        ncase = 0
        for chunks in chunkings(text):
            acc.n += 1
            ncase += 1
            cinp = {"text": text, "chunks": list(chunks)}
            ok, lines = _guard(vs, "chunks_to_lines", cinp, lambda: osutils.chunks_to_lines(list(chunks)))
            if not ok:
                continue
            if b"".join(lines) != text:
                vs.add("chunks_to_lines:concatenation-differs", dict(input=cinp, got=lines))
            elif list(lines) != list(whole):
                vs.add("chunks_to_lines:depends-on-chunking", dict(input=cinp, got=lines, whole=whole))
            ok, it = _guard(vs, "chunks_to_lines_iter", cinp, lambda: list(osutils.chunks_to_lines_iter(iter(list(chunks)))))
            if ok and list(it) != list(lines):
                vs.add("chunks_to_lines_iter:differs-from-chunks_to_lines", dict(input=cinp, got=it, lines=lines))
            ok, sl = _guard(vs, "split_lines(chunks)", cinp, lambda: osutils.split_lines(list(chunks)))
            if ok and list(sl) != list(lines):
                vs.add("split_lines(chunks):differs-from-chunks_to_lines", dict(input=cinp, got=sl, lines=lines))
        if len(whole) > 1 and len(text) > 2:
            acc.nt(text)
        acc.outcomes.add((len(text), len(whole)))
        if len(whole) > 1:
            acc.sample({"text": text, "lines": list(whole), "chunkings": ncase})
    vs.flush()
    return acc


# ---------------------------------------------------------------- D: dates

BASES = (0, 1, 59, 60, 3599, 3600, 86399, 86400, 951782400, 951868799, 951868800, 978307199, 978307200,
         1000000000, 1234567890, 2 ** 31 - 1, 2 ** 31, 2 ** 32 - 1, 2 ** 32, 4102444800)
PRE_EPOCH = (-1, -86400, -86401, -2 ** 31)
FRACS = (0.0, 0.5, 0.25, 0.001, 0.123456789, 0.999999, 0.999999999, 1e-9, 0.9999999996, 0.3333333333333333)


def offset_class(off):
    if off is not None and off < 0 and off % 3600 != 0:
        return "negative-offset-with-minutes"
    return "other-offsets"


def time_class(t):
    if t < 0 and t != math.floor(t):
        return "pre-epoch-fraction"
    if t - math.floor(t) >= 0.9999999995:
        return "fraction-rounds-up-to-1"
    return "other-times"


def _dates_work(chunk):
    from breezy import osutils
    acc = par.Acc()
    vs = _u5.SmallestViolations(acc)
    for off in chunk:
        for base in BASES + PRE_EPOCH:
            for fr in FRACS:
                t = float(base) + fr
                acc.n += 1
                ocls, tcls = offset_class(off), time_class(t)
                cls = ocls + "," + tcls
                rank = (abs(off or 0), off is not None, abs(t))
                inp = {"t": repr(t), "offset": off}
                if fr and off:
                    acc.nt((t, off))
                ok, s = _guard(vs, "format_highres_date:" + cls, inp, lambda: osutils.format_highres_date(t, off))
                if not ok:
                    continue
                inp["formatted"] = s
                try:
                    t2, off2 = osutils.unpack_highres_date(s)
                except ValueError as e:
                    acc.outcomes.add(("unparseable", cls))
                    vs.add("unpack_highres_date(format_highres_date):ValueError:" + ocls, dict(input=inp, error=str(e)), rank)
                    continue
                except (KeyboardInterrupt, SystemExit, MemoryError):
                    raise
                except BaseException as e:  # noqa
                    vs.add("unpack_highres_date:raises-%s:%s" % (type(e).__name__, cls), dict(input=inp, error=repr(e)[:300]))
                    continue
                good = True
                if off2 != (off or 0):
                    good = False
                    vs.add("highres-date-roundtrip:offset-differs:" + ocls, dict(input=inp, got=[repr(t2), off2]), rank)
                if abs(t2 - t) > 1e-9 + math.ulp(t):
                    good = False
                    vs.add("highres-date-roundtrip:time-differs:" + tcls, dict(input=inp, got=[repr(t2), off2]), rank)
                acc.outcomes.add(("roundtrip" if good else "differs", cls))
                if good:
                    ok, s2 = _guard(vs, "format_highres_date", inp, lambda: osutils.format_highres_date(t2, off2))
                    if ok and s2 != s:
                        vs.add("highres-date:format(unpack(s))-differs:" + cls, dict(input=inp, again=s2), rank)
        acc.sample({"offset": off, "t": 1234567890.5, "formatted": osutils.format_highres_date(1234567890.5, off)})
    vs.flush()
    return acc


def run(ctx):
    U = universe()
    if len(U) != 29:
        raise HarnessError("universe size %d" % len(U))
    maxset = ctx.q(4, 6)
    accP = par.Acc()
    vsP = _u5.SmallestViolations(accP)
    _pairs(accP, vsP)
    vsP.flush()
    pitems = [(0, 0)]
    for size in range(1, maxset + 1):
        for first in range(len(U) - size + 1):
            pitems.append((first, size))
    a1, a2 = _paths_work(pitems[:8]), _paths_work(pitems[:8])
    if (a1.n, a1.violations, sorted(a1.outcomes)) != (a2.n, a2.violations, sorted(a2.outcomes)):
        raise HarnessError("determinism audit failed (paths)")
    accA = par.merge([accP] + par.pmap(_paths_work, pitems, seed=ctx.seed, chunks_per_job=16))
    ntok = ctx.q(4, 5)
    titems = [t for k in range(0, ntok + 1) for t in itertools.product(TOKENS, repeat=k)]
    accB = par.merge(par.pmap(_splitjoin_work, titems, seed=ctx.seed))
    nbytes = ctx.q(6, 9)
    texts = [b"".join(w) for k in range(0, nbytes + 1) for w in itertools.product(BYTES, repeat=k)]
    accC = par.merge(par.pmap(_lines_work, texts, seed=ctx.seed, chunks_per_job=16))
    step = ctx.q(900, 60)
    offsets = [None] + list(range(-14 * 3600, 14 * 3600 + 1, step))
    accD = par.merge(par.pmap(_dates_work, offsets, seed=ctx.seed))
    _u5.report_smallest(ctx, [accA, accB, accC, accD])
    ctx.assumptions.append("paths are str (what commit.py / workingtree_4.py pass); POSIX separators only")
    ctx.assumptions.append("date tolerance 1e-9 + one ulp of t (the format carries 9 decimals); offsets are whole minutes")
    return {
        "evaluations": accA.n + accB.n + accC.n + accD.n,
        "path_sets": accA.n - len(U) ** 2,
        "is_inside_pairs": len(U) ** 2,
        "split_join_paths": accB.n,
        "texts": len(texts),
        "text_chunkings": accC.n,
        "date_cases": accD.n,
        "distinct_nontrivial": len(accA.nontrivial) + len(accB.nontrivial) + len(accC.nontrivial) + len(accD.nontrivial),
        "rule": "A: every set of <=%d paths of the %d-path universe, non-trivial = some member lies inside another; all ordered "
                "pairs for is_inside, non-trivial = distinct and dir not ''; B: every token sequence <=%d over %r, non-trivial = "
                "normalised with >=2 components; C: every byte string <=%d over CR/LF/a x every chunking, non-trivial = text with "
                ">=2 lines and >=3 bytes; D: %d timestamps x %d offsets, non-trivial = fractional time and non-zero offset"
                % (maxset, len(U), ntok, TOKENS, nbytes, len(BASES + PRE_EPOCH) * len(FRACS), len(offsets)),
        "distinct_outcomes": len(accA.outcomes) + len(accB.outcomes) + len(accC.outcomes) + len(accD.outcomes),
        "date_outcomes": sorted(accD.outcomes),
        "split_outcomes": sorted(accB.outcomes, key=repr),
        "max_set_size": maxset,
        "samples": accA.samples[:2] + accB.samples[:1] + accC.samples[:1] + accD.samples[:1],
        "exhaustive": True,
    }


def replay(ctx, data):
    """Re-run the part of the check the recorded input belongs to, on that input only."""
    inp = data["first"]["input"]
    sig = data["signature"]

    def b(x):
        return bytes.fromhex(x[4:]) if x.startswith("hex:") else x.encode("utf-8")
    if "t" in inp:
        off = inp["offset"]
        acc = _dates_work([off])
    elif "paths" in inp or "dirs" in inp:
        U = universe()
        S = tuple(sorted(inp.get("paths", inp.get("dirs")), key=U.index))
        acc = _paths_work([(U.index(S[0]), len(S))] if S else [(0, 0)])
    elif "dir" in inp:
        acc = par.Acc()
        vs = _u5.SmallestViolations(acc)
        _pairs(acc, vs)
        vs.flush()
    elif "text" in inp:
        acc = _lines_work([b(inp["text"])])
    elif "path" in inp:
        acc = _splitjoin_work([tuple(inp["path"].split("/"))])
    elif "parts" in inp:
        acc = _splitjoin_work([tuple(inp["parts"])])
    else:
        return True
    return sig not in [s for s, _ in acc.violations]
