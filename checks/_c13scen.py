"""Scenario builder for C13: working trees whose pending / incoming changes make the real
commands (revert, merge, shelve, unshelve) build transforms that create, delete, rename,
swap and change the kind of entries.

BASE (committed as r0):   a (file)  x (executable file)  l (symlink -> a)
                          d/ (dir)  d/b (file)  d/e/ (dir)  d/e/c (file)

An *edit* is a named mutation of a working tree (file-system calls plus the public
WorkingTree API: add / rename_one / remove); a *script* is a tuple of edits.
"""
import os
import shutil

from mc import wt as mwt

BASE_FILES = [("a", b"a\n", False), ("x", b"x\n", True), ("d/b", b"b\n", False), ("d/e/c", b"c\n", False)]


def build_base(kind, root):
    cd = mwt.make_tree(kind, root)
    os.makedirs(os.path.join(root, "d", "e"))
    for p, c, x in BASE_FILES:
        with open(os.path.join(root, p), "wb") as f:
            f.write(c)
        if x:
            os.chmod(os.path.join(root, p), 0o755)
    os.symlink("a", os.path.join(root, "l"))
    if kind == "bzr":
        cd.add(["a", "x", "l", "d", "d/b", "d/e", "d/e/c"],
               ids=[b"a-id", b"x-id", b"l-id", b"d-id", b"b-id", b"e-id", b"c-id"])
    else:
        cd.add(["a", "x", "l", "d", "d/b", "d/e", "d/e/c"])
    cd.commit("base", rev_id=b"r0" if kind == "bzr" else None, timestamp=1_000_000_000.0, timezone=0,
              committer="C <c@example.com>")
    return cd


def _w(root, p, data):
    with open(os.path.join(root, p), "wb") as f:
        f.write(data)


def _rm(t, paths):
    t.remove(paths, keep_files=False, force=True)


def e_mod_a(t, r):
    _w(r, "a", b"a2\n")


def e_mod_c(t, r):
    _w(r, "d/e/c", b"c2\n")


def e_chmod_a(t, r):
    os.chmod(os.path.join(r, "a"), 0o755)


def e_unchmod_x(t, r):
    os.chmod(os.path.join(r, "x"), 0o644)


def e_ren_a(t, r):
    t.rename_one("a", "n")


def e_mv_a_d(t, r):
    t.rename_one("a", "d/a")


def e_del_a(t, r):
    _rm(t, ["a"])


def e_del_d(t, r):
    _rm(t, ["d"])


def e_del_e(t, r):
    _rm(t, ["d/e"])


def e_add_n(t, r):
    _w(r, "n", b"n\n")
    t.add(["n"])


def e_add_g(t, r):
    os.mkdir(os.path.join(r, "g"))
    _w(r, "g/h", b"h\n")
    os.chmod(os.path.join(r, "g/h"), 0o755)
    t.add(["g", "g/h"])


def e_a_to_dir(t, r):
    os.unlink(os.path.join(r, "a"))
    os.mkdir(os.path.join(r, "a"))
    _w(r, "a/y", b"y\n")
    t.add(["a/y"])


def e_a_to_link(t, r):
    os.unlink(os.path.join(r, "a"))
    os.symlink("x", os.path.join(r, "a"))


def e_l_to_file(t, r):
    os.unlink(os.path.join(r, "l"))
    _w(r, "l", b"l\n")


def e_e_to_file(t, r):
    _rm(t, ["d/e/c"])
    shutil.rmtree(os.path.join(r, "d/e"), ignore_errors=True)
    _w(r, "d/e", b"e\n")
    if not t.is_versioned("d/e"):
        t.add(["d/e"])


def e_swap_a_x(t, r):
    t.rename_one("a", "tmp")
    t.rename_one("x", "a")
    t.rename_one("tmp", "x")


def e_ren_d(t, r):
    t.rename_one("d", "g")


def e_ren_d_b(t, r):
    """rename a directory and a file inside it"""
    t.rename_one("d", "g")
    t.rename_one("g/b", "g/b2")


def e_invert_d_e(t, r):
    """d/e becomes the top-level e and d moves into it (parent/child inversion)"""
    t.rename_one("d/e", "e")
    t.rename_one("d", "e/d")


def e_swap_dirs(t, r):
    """d <-> d/e swap names through a chain: d/e -> d (after d -> tmp), tmp -> d/e"""
    t.rename_one("d/e", "tmp")
    t.rename_one("d", "tmp/e")
    t.rename_one("tmp", "d")


def e_rot_files(t, r):
    """three-cycle of file names a -> x -> d/b -> a"""
    t.rename_one("a", "t1")
    t.rename_one("d/b", "a")
    t.rename_one("x", "d/b")
    t.rename_one("t1", "x")


def e_replace_a(t, r):
    """delete a (versioned) and add a different file under the same name"""
    _rm(t, ["a"])
    _w(r, "a", b"new a\n")
    t.add(["a"])


EDITS = {
    "mod_a": e_mod_a, "mod_c": e_mod_c, "chmod_a": e_chmod_a, "unchmod_x": e_unchmod_x,
    "ren_a": e_ren_a, "mv_a_d": e_mv_a_d, "del_a": e_del_a, "del_d": e_del_d, "del_e": e_del_e,
    "add_n": e_add_n, "add_g": e_add_g, "a_to_dir": e_a_to_dir, "a_to_link": e_a_to_link,
    "l_to_file": e_l_to_file, "e_to_file": e_e_to_file, "swap_a_x": e_swap_a_x, "ren_d": e_ren_d,
    "ren_d_b": e_ren_d_b, "invert_d_e": e_invert_d_e, "swap_dirs": e_swap_dirs,
    "rot_files": e_rot_files, "replace_a": e_replace_a,
}
ORDER = list(EDITS)


def scripts(max_len):
    """All scripts of distinct edits up to max_len, as ordered tuples with increasing index
    (edits that interfere simply fail to apply and the script is dropped at build time)."""
    import itertools
    out = []
    for k in range(1, max_len + 1):
        out.extend(itertools.combinations(ORDER, k))
    return out


def apply_script(tree, root, script):
    with tree.lock_tree_write():
        for name in script:
            EDITS[name](tree, root)
