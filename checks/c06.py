"""C06 - Aborted and suspended write groups have no visible effect until committed.

Real pack repositories (2a, pack-0.92, and 1.9 as the stackable knit-pack
format) on vfs stores.  Source: a 3-revision history r1<-r2<-r3 of a 40-line
file f (one line changed per revision: knit formats store f@r2, f@r3 and the
inventories of r2, r3 as deltas), an unchanged file g, and a signature for r2.
Target: empty / containing r1 / stacked on a repository containing r1.  A write
group inserts, through repo.<vf>.insert_record_stream(source.<vf>.
get_record_stream(keys, 'unordered', False)), EVERY subset of the menu {rev r2,
rev r3, inv r2, inv r3, text f@r2, text f@r3, sig r2} (+ for 2a the CHK pages of
inv r2 and of inv r3) and is finished in every way of {commit, abort,
suspend->resume->commit, suspend->resume->abort, suspend->unlock->resume in a NEW
repository object->commit, suspend twice->commit, insert half->suspend->resume->
insert the rest->commit}, plus the direct commit preceded by what a stream sink
checks (sink-commit: get_missing_parent_inventories(), then commit_write_group()).
Multi-round finishes split the subset (by prefixes of the insertion order) over 2
rounds (round 1->suspend->resume->round 2->suspend->resume->commit: two resumed
packs that both hold data) and 3 rounds (the third stays in the new pack), with
the resume in the same and in a NEW repository object; stacked targets finish
them like a stream sink.  Quick: cuts after item 1 and after the middle item, on
2a/r1, 2a/stacked, pack-0.92/r1, 1.9/stacked; thorough: every 2-way and 3-way
prefix split on every configuration.

Oracle, per the statement: (1) after any abort - direct, of a resumed group, or
after a refused commit - the visible state (all_revision_ids; keys and full
texts of revisions/inventories/texts/signatures/chk_bytes without fallbacks;
pack-names bytes; the files of the repository directory) equals the state before,
seen both by the same object and by a fresh one; a suspended group is invisible;
(2) every suspend/resume variant has the same outcome and the same visible keys
and texts as the direct commit; (3) the commit is refused when an inserted record
is a delta whose compression parent is neither inserted nor present, when (2a) a
new revision's inventory (record or CHK pages) or the text it changes is neither
inserted nor present, when (stacked) a new revision's parent inventory and the
text it changes are both unavailable; it is accepted when everything an inserted
item needs is inserted or present; all other subsets may go either way; an
accepted commit makes exactly the inserted keys visible with the source's texts.
Thorough adds the reverse insertion order and a transport fault at each k-th
operation of commit_write_group followed by abort (state = before, or = the
completed commit when the fault hit after pack-names was written).
"""
import hashlib
import itertools

from mc import crash, par
from mc import world as mw
from mc.evidence import HarnessError
from mc.vfs import InjectedFault, new_store

ID = "C06"
LEVEL = "model_checking"
TECHNIQUE = ("exhaustive search over (insertion subset x finishing sequence) of write-group API calls on real pack "
             "repositories, differential + statement oracle; single-fault enumeration of commit_write_group")

VFS = ("revisions", "inventories", "texts", "signatures", "chk_bytes")
MENU = ("rev2", "rev3", "inv2", "inv3", "txt2", "txt3", "sig2")
MENU_CHK = MENU + ("chk2", "chk3")
FINISHES = ("commit", "sink-commit", "abort", "sr-commit", "sr-abort", "snew-commit", "s2-commit", "s2new-commit",
            "split-commit")
RESUMING = ("sr-commit", "sr-abort", "snew-commit", "s2-commit", "s2new-commit", "split-commit")
MULTI = ("r2same-commit", "r2new-commit", "r3same-commit", "r3new-commit")
MULTI_CONFIGS_Q = (("2a", "r1"), ("2a", "stacked"), ("pack-0.92", "r1"), ("1.9", "stacked"))
CONFIGS_Q = (("2a", "empty"), ("2a", "r1"), ("2a", "stacked"), ("pack-0.92", "empty"), ("pack-0.92", "r1"),
             ("1.9", "stacked"))
CONFIGS_T = CONFIGS_Q + (("1.9", "r1"), ("1.9", "empty"))


def content(rev):
    lines = [b"line %d %s\n" % (i, b"x" * 30) for i in range(40)]
    if rev >= 2:
        lines[5] = b"changed in r2\n"
    if rev >= 3:
        lines[25] = b"changed in r3\n"
    return b"".join(lines)


def R(i):
    return b"r%d" % i


class Env:
    """Per worker and format: read-only source repository, target store and its snapshots."""

    def __init__(self, fmt):
        from breezy.repository import Repository
        from mc import procs
        procs.install_virtual_time()        # LockDir.wait_lock must not really sleep (names lock left held by a fault)
        self.fmt = fmt
        self.chk = fmt == "2a"
        self.src_store = new_store()
        b = mw.make_branch(self.src_store.transport("src"), fmt)
        for i in (1, 2, 3):
            mw.commit_spec(b, R(i), [R(i - 1)] if i > 1 else [],
                           {"f": mw.F(b"f-id", content(i)), "g": mw.F(b"g-id", b"const\n")})
        repo = b.repository
        with repo.lock_write():
            repo.start_write_group()
            repo.add_signature_text(R(2), b"SIGNATURE of r2\n")
            repo.commit_write_group()
        self.src = Repository.open(self.src_store.url + "src")
        self.src.lock_read()
        self.items = {
            "rev2": ("revisions", [(R(2),)]), "rev3": ("revisions", [(R(3),)]),
            "inv2": ("inventories", [(R(2),)]), "inv3": ("inventories", [(R(3),)]),
            "txt2": ("texts", [(b"f-id", R(2))]), "txt3": ("texts", [(b"f-id", R(3))]),
            "sig2": ("signatures", [(R(2),)]),
        }
        if self.chk:
            for i in (2, 3):
                inv = self.src.get_inventory(R(i))
                keys = {inv.id_to_entry.key(), inv.parent_id_basename_to_file_id.key()}
                for m in (inv.id_to_entry, inv.parent_id_basename_to_file_id):
                    m._ensure_root()
                    if type(m._root_node).__name__ != "LeafNode":
                        raise HarnessError("expected single-page CHK maps in the 2-file source tree")
                self.items["chk%d" % i] = ("chk_bytes", sorted(keys))
        self.menu = MENU_CHK if self.chk else MENU
        # facts about the source, read off the records: storage (delta / fulltext), parents, full texts
        self.delta_basis = {}
        self.fulltext = {}
        self.r1_keys = {}
        for name in VFS:
            vf = getattr(self.src, name)
            if vf is None:
                continue
            keys = sorted(vf.keys())
            for rec in vf.get_record_stream(keys, "unordered", False):
                if "delta" in rec.storage_kind:
                    self.delta_basis[(name, rec.key)] = (name, rec.parents[0])
            for rec in vf.get_record_stream(keys, "unordered", True):
                self.fulltext[(name, rec.key)] = hashlib.sha1(rec.get_bytes_as("fulltext")).hexdigest()
        self.store = new_store()
        self.root = self.store.transport("")
        self.snaps = {}
        self.before = {}
        self.local = {}
        self.fallback = {}

    # -- targets ---------------------------------------------------------------
    def snapshot(self, target):
        if target in self.snaps:
            return self.snaps[target]
        s = self.store
        s.restore({})
        if target == "stacked":
            base = mw.make_branch(s.transport("base"), self.fmt)
            base.repository.fetch(self.src, revision_id=R(1))
            t = mw.make_branch(s.transport("t"), self.fmt)
            t.set_stacked_on_url("../base")
        else:
            t = mw.make_branch(s.transport("t"), self.fmt)
            if target == "r1":
                t.repository.fetch(self.src, revision_id=R(1))
        self.snaps[target] = s.walk()
        repo = self.open(target)
        with repo.lock_read():
            vis = visible(repo)
        self.before[target] = (vis, self.pack_names(), self.repo_files())
        self.local[target] = {(n, k) for n in VFS for k in vis.get(n, {})}
        fb = set()
        if target == "stacked":
            from breezy.repository import Repository
            b = Repository.open(self.store.url + "base")
            with b.lock_read():
                bv = visible(b)
            fb = {(n, k) for n in VFS for k in bv.get(n, {})}
        self.fallback[target] = fb
        return self.snaps[target]

    def open(self, target):
        from breezy.controldir import ControlDir
        cd = ControlDir.open_from_transport(self.root.clone("t"))
        if target == "stacked":
            return cd.open_branch().repository
        return cd.open_repository()

    def pack_names(self):
        return self.store.raw().get_bytes("t/.bzr/repository/pack-names")

    def repo_files(self):
        w = self.store.walk("t/.bzr/repository")
        return sorted(p for p, d in w.items() if d is not None and "/lock" not in p)


_ENVS = {}


def env(fmt):
    if fmt not in _ENVS:
        _ENVS[fmt] = Env(fmt)
    return _ENVS[fmt]


def visible(repo):
    """{'revs': [...], vf name: {key: sha1(fulltext)}} of the repository itself (no fallbacks)."""
    out = {"revs": sorted(repo.all_revision_ids())}
    for name in VFS:
        vf = getattr(repo, name)
        if vf is None:
            continue
        keys = sorted(vf.without_fallbacks().keys())
        d = {}
        for rec in vf.get_record_stream(keys, "unordered", True):
            if rec.storage_kind == "absent":
                d[rec.key] = "ABSENT"
            else:
                d[rec.key] = hashlib.sha1(rec.get_bytes_as("fulltext")).hexdigest()
        out[name] = d
    return out


def keyset(vis):
    return {(n, k) for n in VFS for k in vis.get(n, {})}


# ---- the statement as a predicate ---------------------------------------------------

def demand(e, target, S):
    """What the statement says about committing a group that inserted S into target.

    Returns (direct, sink, reason): each of 'refuse' | 'accept' | 'any'.  direct = commit_write_group()
    alone; sink = get_missing_parent_inventories() first, as a stream sink does (stacked formats).
    """
    have = set(e.local[target])
    fb = e.fallback[target]
    ins = set()
    for it in S:
        name, keys = e.items[it]
        ins.update((name, k) for k in keys)
    avail = have | ins
    stacked = target == "stacked"
    # compression parents
    for item in sorted(ins):
        basis = e.delta_basis.get(item)
        if basis is not None and basis not in avail and basis not in fb:
            return "refuse", "refuse", "missing-compression-parent"
    closed = all(e.delta_basis.get(item) is None or e.delta_basis[item] in avail for item in ins)
    sink_refuse = None
    for i in (2, 3):
        if ("revisions", (R(i),)) not in ins:
            continue
        inv_ok = ("inventories", (R(i),)) in avail
        chk_ok = True
        if e.chk:
            chk_ok = all(("chk_bytes", k) in avail for k in e.items["chk%d" % i][1])
        txt = ("texts", (b"f-id", R(i)))
        parent_inv = ("inventories", (R(i - 1),))
        if e.chk:
            if not inv_ok:
                return "refuse", "refuse", "new-revision-without-inventory"
            if not chk_ok:
                return "refuse", "refuse", "new-revision-without-chk-pages"
            if txt not in avail:
                return "refuse", "refuse", "new-revision-without-its-text"
        if stacked and inv_ok and chk_ok and parent_inv not in avail and txt not in avail and txt not in fb:
            sink_refuse = "stacked-parent-inventory-and-text-missing"
        # strict reading for the 'accept' side: everything the revision needs is here
        if not (inv_ok and chk_ok and txt in avail and parent_inv in avail):
            closed = False
        if e.chk:
            # a CHK inventory is only interpretable with the texts of every entry present
            for k in (("texts", (b"TREE_ROOT", R(1))), ("texts", (b"g-id", R(1)))):
                if k not in avail:
                    closed = False
    if e.chk:
        for i in (2, 3):
            if ("inventories", (R(i),)) in ins and not all(("chk_bytes", k) in avail for k in e.items["chk%d" % i][1]):
                closed = False
    direct = "accept" if closed else "any"
    if sink_refuse:
        return direct, "refuse", sink_refuse
    return direct, direct, None


# ---- flows --------------------------------------------------------------------------

def insert(e, repo, items):
    for it in items:
        name, keys = e.items[it]
        getattr(repo, name).insert_record_stream(getattr(e.src, name).get_record_stream(keys, "unordered", False))


def try_commit(repo, sink, hook_store=None, hook=None):
    """commit_write_group(), preceded - when sink - by what a stream sink checks.  Returns outcome string."""
    from bzrformats.errors import BzrCheckError
    if sink and repo._format.supports_external_lookups:
        try:
            missing = repo.get_missing_parent_inventories()
        except Exception as err:  # noqa  (the sink would propagate it and the group is aborted)
            return "refused:precheck-raised-%s" % type(err).__name__
        if missing:
            return "refused:missing-parent-inventories"
    try:
        if hook is not None:
            hook_store.hook = hook
        try:
            repo.commit_write_group()
        finally:
            if hook is not None:
                hook_store.hook = None
    except BzrCheckError as err:
        msg = str(err)
        if "missing compression parent" in msg:
            return "refused:missing-compression-parent"
        if "Cannot add revision" in msg:
            return "refused:check-new-inventories"
        return "refused:BzrCheckError"
    return "accepted"


class Observed(Exception):
    def __init__(self, sig, info):
        Exception.__init__(self, sig)
        self.sig = sig
        self.info = info


def innermost(err):
    import traceback
    tb = traceback.extract_tb(err.__traceback__)
    for fr in reversed(tb):
        if "/breezy/" in fr.filename and "/verif/" not in fr.filename:
            return fr.name
    return tb[-1].name if tb else "?"


def suspend_resume(e, target, repo, new_object, before_names, before_vis=None):
    """suspend the write group; resume it in the same or in a new repository object.  Returns the repo."""
    tokens = repo.suspend_write_group()
    if e.pack_names() != before_names:
        raise Observed("suspend:pack-names-changed", {})
    if new_object:
        repo.unlock()
        if before_vis is not None:
            fresh = e.open(target)
            with fresh.lock_read():
                if visible(fresh) != before_vis:
                    raise Observed("suspend:suspended-data-visible", {})
        repo = e.open(target)
        repo.lock_write()
    repo.resume_write_group(tokens)
    return repo


def run_flow(e, target, order, finish, fault_k=None, cuts=None, sink=False):
    """Run one (subset, finish) on a restored target.  Returns dict; raises Observed for violations.

    Multi-round finishes (r2same/r2new/r3same/r3new): `cuts` splits `order` into rounds; after each
    round but the last of an r3 flow the group is suspended and resumed, so that the final commit
    has two resumed packs that both hold data (r3: plus a new pack)."""
    s = e.store
    s.restore(e.snapshot(target))
    before_vis, before_names, before_files = e.before[target]
    repo = e.open(target)
    repo.lock_write()
    outcome = None
    steps = 0
    fired = None
    phase = finish if fault_k is None else "fault+abort"
    try:
        try:
            repo.start_write_group()
            steps += 1
            if finish in MULTI:
                bounds = [0] + list(cuts) + [len(order)]
                parts = [order[bounds[i]:bounds[i + 1]] for i in range(len(bounds) - 1)]
                new_object = finish in ("r2new-commit", "r3new-commit")
                if len(parts) != (2 if finish.startswith("r2") else 3) or not all(parts):
                    raise HarnessError("bad cuts %r for %s of %r" % (cuts, finish, order))
                for i, part in enumerate(parts):
                    insert(e, repo, part)
                    if i < 2:       # r2: both rounds are suspended; r3: the third round stays in the new pack
                        repo = suspend_resume(e, target, repo, new_object, before_names,
                                              before_vis if i == 0 else None)
                        steps += 2
            elif finish == "split-commit":
                half = (len(order) + 1) // 2
                insert(e, repo, order[:half])
            else:
                insert(e, repo, order)
            steps += len(order)
            if finish in RESUMING:
                tokens = repo.suspend_write_group()
                steps += 1
                if e.pack_names() != before_names:
                    raise Observed("suspend:pack-names-changed", {})
                if finish in ("snew-commit", "s2new-commit"):
                    repo.unlock()
                    fresh = e.open(target)
                    with fresh.lock_read():
                        if visible(fresh) != before_vis:
                            raise Observed("suspend:suspended-data-visible", {})
                    repo = e.open(target)
                    repo.lock_write()
                repo.resume_write_group(tokens)
                steps += 1
                if finish in ("s2-commit", "s2new-commit"):
                    tokens = repo.suspend_write_group()
                    if finish == "s2new-commit":
                        repo.unlock()
                        repo = e.open(target)
                        repo.lock_write()
                    repo.resume_write_group(tokens)
                    steps += 2
                if finish == "split-commit":
                    insert(e, repo, order[(len(order) + 1) // 2:])
            if finish.endswith("abort"):
                repo.abort_write_group()
                steps += 1
                outcome = "aborted"
            else:
                hook = crash.FaultAt(fault_k) if fault_k is not None else None
                try:
                    outcome = try_commit(repo, sink or finish == "sink-commit", s, hook)
                except Exception:  # noqa
                    if hook is None or hook.fired is None:
                        raise
                    outcome = "fault"      # InjectedFault, or what the code made of it (e.g. LockFailed)
                steps += 1
                if hook is not None:
                    fired = hook.fired
                    if fired is None:
                        outcome = "no-fault:" + outcome
                    elif outcome == "accepted":
                        outcome = "fault-swallowed:accepted"
                if outcome.startswith("refused") or outcome == "fault":
                    if outcome.startswith("refused") and e.pack_names() != before_names:
                        raise Observed("commit:refused-but-pack-names-changed", {"outcome": outcome})
                    if repo.is_in_write_group():
                        # what breezy's callers do when commit_write_group raised (StreamSink, fetch, commit):
                        # abort with suppress_errors=True; the state afterwards is what is judged
                        repo.abort_write_group(suppress_errors=True)
                    steps += 1
            # the same object's view after the group is over
            if repo.is_in_write_group():
                raise Observed("flow:write-group-still-open", {"outcome": outcome})
            try:
                same_obj = visible(repo)
            except Exception as err:  # noqa  (e.g. index entries of an aborted pack whose data is gone)
                same_obj = {"unreadable": "%s:%s" % (type(err).__name__, innermost(err))}
            early = None
            if outcome == "fault" or (outcome.startswith("refused") and same_obj != before_vis):
                # while this process still holds the lock: what do other processes see, what is on disk;
                # then the process carries on with an unrelated write group
                with _read_locked(e.open(target)) as fresh0:
                    early = {"vis": visible(fresh0), "names": e.pack_names(), "files": e.repo_files()}
                from breezy.errors import LockContention
                phase = "fault+abort" if outcome == "fault" else "refused-commit+abort"
                try:
                    repo.start_write_group()
                    repo.texts.add_lines(XKEY, [], [b"unrelated\n"])
                    repo.commit_write_group()
                except LockContention:
                    # the fault hit the release of the pack-names lock, which stays held (C27's subject)
                    early["blocked"] = True
                    repo.abort_write_group(suppress_errors=True)
                except Exception as err:  # noqa
                    raise Observed("%s:later-write-group-fails:%s:%s" % (phase, type(err).__name__, innermost(err)),
                                   {"error": repr(err)[:300], "outcome": outcome})
                steps += 2
        finally:
            if repo.is_in_write_group():
                try:
                    repo.abort_write_group(suppress_errors=True)
                except Exception:
                    pass
            try:
                repo.unlock()
            except Exception:
                pass
    except Observed:
        raise
    except Exception as err:  # noqa
        raise Observed("%s:%s:%s" % (phase, type(err).__name__, innermost(err)), {"error": repr(err)[:300]})
    try:
        fresh = e.open(target)
        with fresh.lock_read():
            vis = visible(fresh)
    except Exception as err:  # noqa
        raise Observed("%s:unreadable-afterwards:%s:%s" % (phase, type(err).__name__, innermost(err)),
                       {"error": repr(err)[:300], "outcome": outcome})
    if early is not None:
        vis2 = {k: (dict(v) if isinstance(v, dict) else v) for k, v in vis.items()}
        if early.get("blocked"):
            vis2 = None
        elif XKEY not in vis2["texts"]:
            raise Observed("fault+abort:followup-commit-lost", {})
        else:
            del vis2["texts"][XKEY]
        return {"outcome": outcome, "vis": early["vis"], "same_obj": same_obj, "names": early["names"],
                "files": early["files"], "steps": steps, "fired": fired, "after_followup": vis2}
    return {"outcome": outcome, "vis": vis, "same_obj": same_obj, "names": e.pack_names(), "files": e.repo_files(),
            "steps": steps, "fired": fired}


XKEY = (b"x-id", b"rx")


class _read_locked:
    def __init__(self, repo):
        self.repo = repo

    def __enter__(self):
        self.repo.lock_read()
        return self.repo

    def __exit__(self, *a):
        self.repo.unlock()


def digest(vis):
    return hashlib.sha1(repr(sorted((k, sorted(v.items()) if isinstance(v, dict) else v)
                                    for k, v in vis.items())).encode()).hexdigest()


def check_unchanged(e, target, r, what):
    before_vis, before_names, before_files = e.before[target]
    if r["vis"] != before_vis:
        return "%s:visible-state-changed" % what
    if r["same_obj"] != before_vis:
        return "%s:same-object-still-sees-group-data" % what
    if r["names"] != before_names:
        return "%s:pack-names-changed" % what
    if r["files"] != before_files:
        return "%s:files-left-behind" % what
    return None


def check_accepted(e, target, S, r, finish):
    before_vis = e.before[target][0]
    ins = set()
    for it in S:
        name, keys = e.items[it]
        ins.update((name, k) for k in keys)
    want = keyset(before_vis) | ins
    for view in ("vis", "same_obj"):
        got = keyset(r[view])
        if got != want:
            return "%s:accepted-but-visible-keys-differ-from-inserted" % finish + ("" if view == "vis" else ":same-object")
        for (n, k) in want:
            h = r[view][n][k]
            if h == "ABSENT" or (h != e.fulltext[(n, k)]):
                return "%s:accepted-but-text-differs-from-source" % finish
    new_revs = {k[0] for (n, k) in ins if n == "revisions"}
    if set(r["vis"]["revs"]) - set(before_vis["revs"]) - set(e.fallback_revs(target)) != new_revs:
        return "%s:accepted-but-all_revision_ids-wrong" % finish
    return None


def _fallback_revs(self, target):
    return {k[0] for (n, k) in self.fallback[target] if n == "revisions"}


Env.fallback_revs = _fallback_revs


def orders(S, thorough):
    S = tuple(S)
    return (S, S[::-1]) if thorough and len(S) > 1 else (S,)


def judge(e, target, S, finish, r, dem, sink_dem, reason, ref):
    """Signature of the first clause of the statement that run r violates, or None.
    ref = the run to compare a resuming flow with (the direct / sink commit of the same subset)."""
    sig = None
    if r["outcome"] == "aborted" or r["outcome"].startswith("refused"):
        what = "abort" if r["outcome"] == "aborted" else "refused-commit+abort"
        if finish not in ("commit", "abort", "sink-commit"):
            what += ":resumed"
        sig = check_unchanged(e, target, r, what)
    elif r["outcome"] == "accepted":
        sig = check_accepted(e, target, S, r, finish)
    else:
        sig = "flow:unexpected-outcome:%s" % r["outcome"]
    if sig is None and finish in ("commit", "sink-commit"):
        want = dem if finish == "commit" else sink_dem
        if want == "refuse" and r["outcome"] == "accepted":
            sig = "%s:accepted-although-%s" % (finish, reason)
        elif want == "accept" and r["outcome"] != "accepted":
            sig = "%s:complete-group-%s" % (finish, r["outcome"].replace(":", "-"))
        elif finish == "sink-commit" and ref is not None and ref["outcome"].startswith("refused") \
                and r["outcome"] == "accepted":
            sig = "sink-commit:accepted-what-direct-commit-refuses"
    if sig is None and (finish in RESUMING or finish in MULTI) and finish != "sr-abort" and ref is not None:
        if r["outcome"].split(":")[0] != ref["outcome"].split(":")[0]:
            sig = "%s:outcome-differs-from-direct-commit:direct-%s-resumed-%s" % (
                finish, ref["outcome"].split(":")[0], r["outcome"].split(":")[0])
        elif r["vis"] != ref["vis"]:
            sig = "%s:visible-state-differs-from-direct-commit" % finish
    return sig


def published_later(e, target, r):
    """After a refused commit + abort the object went on with an unrelated write group: did that publish the
    refused group's data?"""
    after = r.get("after_followup")
    return after is not None and after != e.before[target][0]


def round_plans(n, thorough):
    """[(finish, cuts)] for a subset of n items: prefix splits by insertion order."""
    out = []
    if n < 2:
        return out
    if thorough:
        for k in range(1, n):
            out.append(("r2same-commit", (k,)))
            out.append(("r2new-commit", (k,)))
        for k1 in range(1, n - 1):
            for k2 in range(k1 + 1, n):
                out.append(("r3new-commit" if (k1 + k2) % 2 else "r3same-commit", (k1, k2)))
        return out
    for k in sorted({1, (n + 1) // 2}):
        out.append(("r2same-commit", (k,)))
        out.append(("r2new-commit", (k,)))
    if n >= 3:
        out.append(("r3new-commit", (1, (n + 2) // 2)))
    return out


def _work(chunk):
    acc = par.Acc()
    acc.states = set()
    acc.best = {}

    def viol(sig, key, detail):
        acc.count("violations:" + sig)
        if sig not in acc.best or key < acc.best[sig][0]:
            acc.best[sig] = (key, detail)
    for fmt, target, S, thorough in chunk:
        e = env(fmt)
        e.snapshot(target)
        dem, sink_dem, reason = demand(e, target, S)
        for order in orders(S, thorough):
            base = {"format": fmt, "target": target, "inserted": list(order), "statement_demands": dem,
                    "reason": reason}
            key0 = (len(S), fmt, target, order)
            ref = ref_sink = None
            for finish in FINISHES:
                acc.n += 1
                d = dict(base, finish=finish)
                try:
                    r = run_flow(e, target, order, finish)
                except Observed as o:
                    viol("%s:%s" % (fmt_class(fmt), o.sig), key0 + (finish,), dict(d, **o.info))
                    if finish == "commit":
                        break
                    continue
                acc.count("transitions", r["steps"])
                acc.states.add((fmt, target, frozenset(S), finish, digest(r["vis"]), r["outcome"]))
                acc.outcomes.add((fmt, target, finish, r["outcome"], sink_dem if finish == "sink-commit" else dem))
                if finish in ("commit", "sink-commit"):
                    acc.count("class:%s/%s %s demanded=%s got=%s" % (fmt, target, finish,
                                                                    sink_dem if finish == "sink-commit" else dem,
                                                                    r["outcome"]))
                if not e.chk and r["outcome"] == "accepted" and finish == "commit":
                    for i in (2, 3):
                        if "rev%d" % i in S and "inv%d" % i not in S:
                            acc.count("knitpack_accepts_new_revision_without_inventory")
                            break
                if 0 < len(S) < len(e.menu):
                    acc.nt((fmt, target, order, finish))
                sig = judge(e, target, S, finish, r, dem, sink_dem, reason, ref)
                if finish == "commit":
                    ref = r
                if finish == "sink-commit":
                    ref_sink = r
                if published_later(e, target, r):
                    viol("%s:refused-commit+abort:aborted-data-published-by-later-write-group" % fmt_class(fmt),
                         key0 + (finish,), dict(d, outcome=r["outcome"]))
                if sig is not None:
                    viol("%s:%s" % (fmt_class(fmt), sig), key0 + (finish,), dict(d, outcome=r["outcome"],
                         direct_commit_outcome=ref["outcome"] if ref else None))
            # several rounds of insertions with a suspend/resume between them: the final commit has two
            # resumed packs that both hold data.  Stacked targets finish like a stream sink.
            sink = target == "stacked"
            mref = ref_sink if sink else ref
            if mref is not None and (thorough or (fmt, target) in MULTI_CONFIGS_Q):
                for finish, cuts in round_plans(len(order), thorough):
                    acc.n += 1
                    acc.count("multi_round_runs")
                    d = dict(base, finish=finish, rounds=[list(order[a:b]) for a, b in
                                                          zip((0,) + cuts, cuts + (len(order),))],
                             final_step="sink-commit" if sink else "commit")
                    try:
                        r = run_flow(e, target, order, finish, cuts=cuts, sink=sink)
                    except Observed as o:
                        viol("%s:%s" % (fmt_class(fmt), o.sig), key0 + (finish,) + cuts, dict(d, **o.info))
                        continue
                    acc.count("transitions", r["steps"])
                    acc.states.add((fmt, target, frozenset(S), finish, cuts, digest(r["vis"]), r["outcome"]))
                    acc.outcomes.add((fmt, target, finish, r["outcome"], sink_dem if sink else dem))
                    acc.nt((fmt, target, order, finish, cuts))
                    sig = judge(e, target, S, finish, r, dem, sink_dem, reason, mref)
                    if sig is None and (sink_dem if sink else dem) == "refuse" and r["outcome"] == "accepted":
                        sig = "%s:accepted-although-%s" % (finish, reason)
                    if sig is not None:
                        viol("%s:%s" % (fmt_class(fmt), sig), key0 + (finish,) + cuts,
                             dict(d, outcome=r["outcome"], direct_commit_outcome=mref["outcome"]))
                    if published_later(e, target, r):
                        viol("%s:refused-commit+abort:aborted-data-published-by-later-write-group" % fmt_class(fmt),
                             key0 + (finish,) + cuts, dict(d, outcome=r["outcome"]))
            if len(acc.samples) < 2 and 0 < len(S) < 4:
                acc.sample({"format": fmt, "target": target, "inserted": list(order),
                            "direct_commit": ref["outcome"] if ref else None, "statement_demands": dem})
    return acc


def fmt_class(fmt):
    return "2a" if fmt == "2a" else "knitpack"


# ---- thorough: a fault at each k-th transport operation of the commit ----------------------

def _fault_work(chunk):
    acc = par.Acc()
    acc.best = {}
    acc.states = set()
    for fmt, target, S, finish in chunk:
        e = env(fmt)
        e.snapshot(target)
        try:
            ref = run_flow(e, target, S, finish)
        except Observed:
            continue          # reported by the main part
        if ref["outcome"] != "accepted":
            continue
        k = 0
        while True:
            k += 1
            acc.n += 1
            d = {"format": fmt, "target": target, "inserted": list(S), "finish": finish, "fault_at_op": k}
            try:
                r = run_flow(e, target, S, finish, fault_k=k)
            except Observed as o:
                sig = "%s:%s" % (fmt_class(fmt), o.sig)
                acc.count("violations:" + sig)
                key = (len(S), k, fmt, target, S)
                if sig not in acc.best or key < acc.best[sig][0]:
                    acc.best[sig] = (key, dict(d, **o.info))
                continue
            if r["outcome"].startswith("no-fault"):
                acc.n -= 1
                break
            if r["outcome"].startswith("refused"):
                continue          # the fault was absorbed and the group refused as without it
            acc.count("transitions", r["steps"])
            acc.nt((fmt, target, S, finish, k))
            d["faulted_op"] = r["fired"].brief() if r["fired"] is not None else None
            sig = check_unchanged(e, target, r, "fault+abort")
            if r["outcome"] == "fault" and sig is None or (sig or "").endswith(("same-object-still-sees-group-data",
                                                                                  "files-left-behind")):
                # whatever this object still believes, a later commit must not publish the aborted group
                if r["after_followup"] is None:
                    acc.count("followup_blocked_by_names_lock_left_held")
                elif r["vis"] == e.before[target][0] and r["after_followup"] != e.before[target][0]:
                    sig = "fault+abort:aborted-data-published-by-later-write-group"
                    acc.count("violations:%s:%s" % (fmt_class(fmt), sig))
                    key = (len(S), k, fmt, target, S)
                    full = "%s:%s" % (fmt_class(fmt), sig)
                    if full not in acc.best or key < acc.best[full][0]:
                        acc.best[full] = (key, dict(d))
                    sig = check_unchanged(e, target, r, "fault+abort")
            if sig is not None:
                # the fault may have hit after the commit point: then the complete commit must be there
                if r["vis"] == ref["vis"] and r["same_obj"] in (ref["vis"], e.before[target][0]):
                    acc.count("faults_after_commit_point")
                    sig = None
                elif sig.endswith("files-left-behind") and r["vis"] == e.before[target][0] and r["names"] == e.before[target][1]:
                    acc.count("faults_leaving_unlisted_files")
                    sig = None
            acc.states.add((fmt, target, frozenset(S), finish, "fault", digest(r["vis"])))
            acc.outcomes.add((fmt, target, finish, "fault", digest(r["vis"]) == digest(ref["vis"])))
            if sig is not None:
                sig = "%s:%s" % (fmt_class(fmt), sig)
                acc.count("violations:" + sig)
                key = (len(S), k, fmt, target, S)
                if sig not in acc.best or key < acc.best[sig][0]:
                    acc.best[sig] = (key, d)
    return acc


def subsets(menu):
    for k in range(len(menu) + 1):
        yield from itertools.combinations(menu, k)


def run(ctx):
    import os
    configs = CONFIGS_T if ctx.thorough else CONFIGS_Q
    only = os.environ.get("VERIF_C06_CONFIGS")      # development aid (mutant runs): e.g. "2a/r1,1.9/stacked"
    if only:
        configs = tuple(c for c in configs if "%s/%s" % c in only.split(","))
        ctx.assumptions.append("PARTIAL RUN: restricted to configs %s by VERIF_C06_CONFIGS" % only)
    items = []
    for fmt, target in configs:
        menu = MENU_CHK if fmt == "2a" else MENU
        for S in subsets(menu):
            items.append((fmt, target, S, ctx.thorough))
    accs = par.pmap(_work, items, seed=ctx.seed, chunks_per_job=8)
    faccs = []
    if ctx.thorough:
        fitems = [(fmt, target, S, finish) for (fmt, target, S, _) in items if S
                  for finish in ("commit", "sr-commit")]
        faccs = par.pmap(_fault_work, fitems, seed=ctx.seed, chunks_per_job=8)
    acc = par.merge(accs + faccs)
    states = set()
    best = {}
    for a in accs + faccs:
        states |= a.states
        for sig, (key, d) in a.best.items():
            if sig not in best or key < best[sig][0]:
                best[sig] = (key, d)
    for sig in sorted(best):
        ctx.violation(sig, best[sig][1])
    ctx.assumptions += [
        "the commit step is the stream-sink protocol: get_missing_parent_inventories() (formats with external lookups) then commit_write_group()",
        "records are inserted with insert_record_stream(get_record_stream(keys, 'unordered', False)) in menu order (thorough: also reversed)",
        "1.9 stands in for pack-0.92 where stacking is needed (pack-0.92 does not support external lookups)",
        "subsets the statement neither forbids nor guarantees (e.g. an inventory without its revision) may be accepted or refused",
    ]
    outcomes = {k[len("class:"):]: v for k, v in acc.counters.items() if k.startswith("class:")}
    return {
        "evaluations": acc.n,
        "states": len(states),
        "transitions": acc.counters.get("transitions", 0),
        "traces_validated_against_impl": acc.n,
        "distinct_nontrivial": len(acc.nontrivial),
        "distinct_outcome_classes": len(acc.outcomes),
        "commit_outcome_classes": dict(sorted(outcomes.items())),
        "subsets_statement_says_refuse": sum(v for k, v in outcomes.items() if " commit demanded=refuse" in k),
        "subsets_statement_says_accept": sum(v for k, v in outcomes.items() if " commit demanded=accept" in k),
        "subsets": len(items),
        "configs": ["%s/%s" % c for c in configs],
        "finishes": list(FINISHES),
        "multi_round_runs": acc.counters.get("multi_round_runs", 0),
        "fault_runs": sum(a.n for a in faccs),
        "faults_after_commit_point": acc.counters.get("faults_after_commit_point", 0),
        "knitpack_accepts_new_revision_without_inventory": acc.counters.get("knitpack_accepts_new_revision_without_inventory", 0),
        "faults_leaving_unlisted_files": acc.counters.get("faults_leaving_unlisted_files", 0),
        "followup_blocked_by_names_lock_left_held": acc.counters.get("followup_blocked_by_names_lock_left_held", 0),
        "violation_counts": {k[len("violations:"):]: v for k, v in acc.counters.items() if k.startswith("violations:")},
        "rule": ("one evaluation = one (format, target, insertion order, finishing sequence) run on a restored store; "
                 "states = distinct (config, subset, finish, outcome, visible-state digest); non-trivial = subset neither "
                 "empty nor the whole menu (and every fault position)"),
        "samples": acc.samples[:3],
        "exhaustive": not only,
    }


def replay(ctx, data):
    d = data["first"]
    fmt, target = d["format"], d["target"]
    order = tuple(d["inserted"])
    menu = MENU_CHK if fmt == "2a" else MENU
    S = tuple(x for x in menu if x in order)
    if "fault_at_op" in d:
        acc = _fault_work([(fmt, target, S, d["finish"])])
    else:
        acc = _work([(fmt, target, S, True)])
    for sig, (key, det) in sorted(acc.best.items()):
        print("  %s: %s" % (sig, {k: det[k] for k in det if k not in ("format", "target")}))
    return data["signature"] not in acc.best
