"""C48 - Ignore patterns match according to their documented semantics.

Part 1: every glob pattern of <= L tokens over {a b . + * ? [ab] [!a] / **/ ./} (plus a
pool of RE: patterns) x every relative path of <= 5 characters over {a b . + /} (plus a few
longer ones), through the real ``Globster``; oracle = an independent backtracking matcher
written from ``brz help patterns`` (checks/_c48_ref.py).  Part 2: every list of <= 2 (3)
patterns from a pool, each plain, '!' or '!!', through ``ExceptionGlobster``: ignored iff a
'!!' pattern matches or (no '!' pattern matches and a plain one does); the reported pattern
must be one that matches.  Part 3: batching - pool patterns embedded among 97..101 and
197..201 non-matching fillers of the same category at positions around the 99/198 group
boundaries (every position in the thorough tier), also inside '!' and '!!' classes, and pairs
straddling a boundary.  Part 4: the examples given in ``brz help ignore`` / ``patterns``.
Part 5: the same lists written to .bzrignore of a real working tree, ``tree.is_ignored``.
"""
import itertools

from mc import par
from mc.evidence import HarnessError

from ._sigacc import SigAcc, smallest

from . import _c48_ref as R

ID = "C48"
LEVEL = "exploration"
TECHNIQUE = "exhaustive small-scope enumeration of patterns, pattern lists, paddings and paths on the real Globster/ExceptionGlobster against a reference matcher written from the help text"

TOKENS = ("a", "b", ".", "+", "*", "?", "[ab]", "[!a]", "/", "**/", "./")
RE_POOL = ("RE:a", "RE:a.*", "RE:.*b", "RE:(a|b)/a", "RE:a/.*\\.b", "RE:[ab]+", "RE:a\\+", "RE:(?!a/).*",
           "RE:^a", "RE:a$", "RE:a/", "RE:.*/b", "RE:a\\.b", "RE:(a|ab)(b|)", "RE:a\\(b", "RE:\\[a", "RE:(?i)A")
NAME_CHARS = ("a", "b", ".", "+", "/")
EXTRA_NAMES = ("a/b/a.b", "a/a/a/b", "b/a.b/a", "a(b", "a:b", "[a", "A", "a/ab.b", "ab/a/b")


def pattern_words(maxlen):
    for k in range(1, maxlen + 1):
        for w in itertools.product(TOKENS, repeat=k):
            ok = True
            for i, t in enumerate(w):
                prev = w[i - 1] if i else None
                if t == "./" and i != 0:
                    ok = False
                elif t == "**/" and not (prev is None or prev in ("/", "**/", "./")):
                    ok = False
                elif t == "/" and (prev is None or prev in ("/", "**/", "./")):
                    ok = False
                elif t == "*" and prev == "*":
                    ok = False
                if not ok:
                    break
            if not ok:
                continue
            p = "".join(w)
            comps = p.split("/")
            body = comps[1:] if w[0] == "./" else comps
            if any(c in (".", "..") for c in body):
                continue
            if p in ("./",) or p.rstrip("/") in ("", ".", "**"):
                continue
            yield p


def names(maxlen):
    out = []
    for k in range(1, maxlen + 1):
        for w in itertools.product(NAME_CHARS, repeat=k):
            s = "".join(w)
            comps = s.split("/")
            if any(c in ("", ".", "..") for c in comps):
                continue
            out.append(s)
    out.extend(EXTRA_NAMES)
    return out


_N = {}


def _names():
    if "n" not in _N:
        _N["n"] = names(5)
    return _N["n"]


def _exc_sig(e):
    import traceback
    fn = "?"
    for fr in traceback.extract_tb(e.__traceback__):
        if "/breezy/" in fr.filename:
            fn = fr.name
    return "%s:%s" % (type(e).__name__, fn)


def pat_class(p):
    """Abstract class of a pattern for signatures."""
    _, body = R.split_prefix(p)
    b = R.normalize(body)
    if b.startswith("RE:"):
        if "(?i)" in b or "(?s)" in b:
            return "regex-inline-flag"
        if "\\(" in b or "\\[" in b:
            return "regex-escaped-bracket"
        return "regex"
    if "/" in b:
        return "fullpath"
    if b.startswith("*."):
        return "extension"
    return "basename"


def check_list(make, patterns, namelist, acc, where, classes=None):
    """Compare make(patterns).match(name) with the reference verdict for every name."""
    try:
        g = make(patterns)
    except Exception as e:  # noqa
        acc.violation("%s:construct:%s" % (where, _exc_sig(e)), {"patterns": patterns})
        return
    hits = 0
    for name in namelist:
        acc.n += 1
        try:
            want = R.verdict(patterns, name)
        except R.Invalid:
            acc.count("outside_domain")
            continue
        try:
            got = g.match(name)
        except Exception as e:  # noqa
            cl = classes or "+".join(sorted({pat_class(p) for p in patterns}))
            acc.violation("%s:match:%s:%s" % (where, _exc_sig(e), cl), {"patterns": patterns, "name": name})
            return hits
        ok = False
        for ign, reportable in want:
            if (got is not None) == ign and (got is None or got in reportable):
                ok = True
        if got is not None:
            hits += 1
        if not ok:
            cl = classes or "+".join(sorted({pat_class(p) for p in patterns}))
            if any((got is not None) == ign for ign, _ in want):
                what = "reported-pattern-does-not-match"
            elif got is None:
                what = "not-ignored-but-a-pattern-matches"
            else:
                what = "ignored-but-no-pattern-matches"
            acc.violation("%s:%s:%s" % (where, what, cl),
                          {"patterns": patterns if len(patterns) < 8 else "%d patterns" % len(patterns),
                           "interesting": [p for p in patterns if "zq" not in p][:6],
                           "name": name, "reported": got, "reference": [[i, sorted(r)] for i, r in want]})
    return hits


# ---- part 1 ----------------------------------------------------------------

def _work1(chunk):
    from breezy.globbing import Globster
    acc = SigAcc()
    nl = _names()
    for p in chunk:
        h = check_list(lambda ps: Globster(ps), [p], nl, acc, "single")
        if h and h < len(nl):
            acc.count("nt1")
        acc.outcomes.add(h)
    return acc


# ---- part 2 ----------------------------------------------------------------

POOL = ("*", "*.b", "a*", "a?", "[ab]", "[!a]b", "a.b", "*.", "a/b", "a/*", "./a", "./*.b", "**/a", "a/**/b", "*/b",
        "a/", "a+", "**/*.b", "?/[!a]", "RE:a.*", "RE:.*b", "RE:(a|b)/a")
POOL3 = ("*", "*.b", "a?", "./a", "a/*", "**/b", "RE:a.*")
LNAMES = ("a", "b", "ab", "a.b", "b.b", ".b", "a+", "a/a", "a/b", "b/a", "a/ab", "a/a.b", "b/b.b", "a/b/a", "a/b/b",
          "b/a/a.b", "a/a/b", "ab/b", "+")


def _work2(chunk):
    from breezy.globbing import ExceptionGlobster
    acc = SigAcc()
    for pats in chunk:
        pats = list(pats)
        h = check_list(lambda ps: ExceptionGlobster(ps), pats, LNAMES, acc, "list")
        if len(pats) > 1 and any(p.startswith("!") for p in pats):
            acc.count("nt2")
        acc.outcomes.add(("l", h))
    return acc


# ---- part 3 ----------------------------------------------------------------

def filler(cat, i):
    return {"extension": "*.zq%d", "basename": "zq%d", "fullpath": "zq/%d", "regex": "RE:zq%d"}[cat] % i


def category(p):
    b = R.normalize(p)
    if b.startswith("RE:") or "/" in b:
        return "fullpath"
    return "extension" if b.startswith("*.") else "basename"


def padded(prefix, pats_at, total, cat, with_star):
    """total fillers of category cat with the given {position: pattern} inserted (positions in
    the final list of that class), all carrying prefix; a plain '*' first when with_star."""
    out = []
    fi = 0
    n = total + len(pats_at)
    for pos in range(n):
        if pos in pats_at:
            out.append(prefix + pats_at[pos])
        else:
            out.append(prefix + filler(cat, fi))
            fi += 1
    if with_star:
        out.insert(0, "*")
    return out


def _work3(chunk):
    from breezy.globbing import ExceptionGlobster, Globster
    acc = SigAcc()
    for prefix, pats, total, positions in chunk:
        cat = category(pats[0])
        pl = padded(prefix, dict(zip(positions, pats)), total, cat, prefix == "!")
        if prefix:
            h = check_list(lambda ps: ExceptionGlobster(ps), pl, LNAMES, acc, "batch" + prefix, classes=cat)
        else:
            h = check_list(lambda ps: Globster(ps), pl, LNAMES, acc, "batch", classes=cat)
            # grouping invariance: same verdicts as the unpadded list, name by name
            g0, g1 = Globster(list(pats)), Globster(pl)
            for name in LNAMES:
                try:
                    a, b = g0.match(name), g1.match(name)
                except Exception:  # noqa  (reported by check_list already)
                    break
                if (a is None) != (b is None):
                    acc.violation("batch:verdict-depends-on-padding:%s" % cat,
                                  {"interesting": list(pats), "fillers": total, "positions": list(positions),
                                   "name": name, "alone": a, "padded": b})
                    break
        acc.count("nt3")
        acc.outcomes.add(("b", h))
    return acc


# ---- part 4: examples from the help text -----------------------------------

DOC_EXAMPLES = [
    ("top-level-makefile", ["./Makefile"], {"Makefile": True, "d/Makefile": False}),
    ("class-files", ["*.class"], {"a.class": True, "d/e/a.class": True, "a.java": False}),
    ("class-files-exception", ["*.class", "!special.class"], {"special.class": False, "a.class": True}),
    ("regex-begins-with-hash", ["RE:^#"], {"#foo": True, "foo": False}),
    ("lib-doublestar-o", ["lib/**/*.o"], {"lib/a.o": True, "lib/x/y/a.o": True, "a.o": False}),
    ("regex-lib-o", ["RE:lib/.*\\.o"], {"lib/a.o": True, "lib/x/a.o": True, "lib/a.c": False}),
    ("regex-everything-but-debian", ["RE:(?!debian/).*"], {"src/x": True, "debian/x": False}),
    ("star-local-autosave", ["*", "!./local", "!!*~"], {"foo": True, "local": False, "local~": True, "foo~": True}),
    ("case-insensitive-flag", ["RE:(?i)foo"], {"foo": True, "FOO": True, "Foo": True, "bar": False}),
    ("trailing-slash-ignored", ["build/"], {"build": True, "x/build": True}),
]


def part4(acc):
    from breezy.globbing import ExceptionGlobster
    for name, pats, expect in DOC_EXAMPLES:
        for path, want in expect.items():
            acc.n += 1
            acc.count("doc_examples")
            try:
                got = ExceptionGlobster(list(pats)).match(path)
            except Exception as e:  # noqa
                acc.violation("doc-example:%s:%s" % (name, type(e).__name__), {"patterns": pats, "name": path})
                break
            if (got is not None) != want:
                acc.violation("doc-example:%s:%s" % (name, "not-ignored" if want else "ignored"),
                              {"patterns": pats, "name": path, "documented": want, "reported": got})
                break


# ---- part 5: .bzrignore in a real working tree ------------------------------

def _work5(chunk):
    import os
    from breezy import ignores
    from mc import wt
    acc = SigAcc()
    cd = wt.make_tree("bzr")
    root = cd.basedir
    base = sorted(set(ignores.get_user_ignores()) | set(ignores.get_runtime_ignores()))
    for pats in chunk:
        pats = list(pats)
        with open(os.path.join(root, ".bzrignore"), "w") as f:
            f.write("# comment\n" + "\n".join(pats) + "\n")
        tree = wt.open_tree(root)
        with tree.lock_read():
            check_list(_TreeMatcher(tree), base + pats, LNAMES, acc, "tree")
        acc.count("nt5")
    wt.rmtree(root)
    return acc


class _TreeMatcher:
    def __init__(self, tree):
        self.tree = tree

    def __call__(self, patterns):
        return self

    def match(self, name):
        return self.tree.is_ignored(name)


def _smallest(violations):
    best = {}
    for sig, d in violations:
        k = (len(repr(d.get("interesting", d.get("patterns")))), len(str(d.get("name", ""))))
        if sig not in best or k < best[sig][0]:
            best[sig] = (k, d)
    return [(s, best[s][1]) for s in sorted(best)]


def batch_items(ctx):
    totals = (97, 98, 99, 100, 101, 197, 198, 199, 200, 201)
    items = []
    for prefix in ("", "!", "!!"):
        pool = POOL if prefix == "" else POOL3
        for p in pool:
            for total in totals:
                if ctx.thorough:
                    positions = range(total + 1)
                else:
                    positions = sorted({0, 1, total} | {x for x in (97, 98, 99, 100, 101, 196, 197, 198, 199, 200)
                                                        if x <= total})
                for pos in positions:
                    items.append((prefix, (p,), total, (pos,)))
    # pairs of the same category straddling the group boundaries
    bycat = {}
    for p in POOL:
        bycat.setdefault(category(p), []).append(p)
    for cat, ps in sorted(bycat.items()):
        for p1, p2 in itertools.permutations(ps[:ctx.q(4, 8)], 2):
            for total in (98, 197, 199):
                for i, j in ((97, 98), (98, 99), (99, 100), (0, 99), (98, 198), (99, 198), (197, 198), (198, 199)):
                    if j <= total + 1:
                        items.append(("", (p1, p2), total, (i, j)))
    return items


def run(ctx):
    from breezy.globbing import Globster
    # harness sanity: fillers never match the list names, reference is deterministic
    for cat in ("extension", "basename", "fullpath", "regex"):
        for name in LNAMES:
            if True in R.matches(filler(cat, 3), name):
                raise HarnessError("filler matches %r" % name)
    L = ctx.q(4, 5)
    pats = list(pattern_words(L)) + list(RE_POOL)
    nl = _names()
    # determinism audit
    a1, a2 = SigAcc(), SigAcc()
    for p in pats[:25]:
        check_list(lambda ps: Globster(ps), [p], nl[:50], a1, "single")
        check_list(lambda ps: Globster(ps), [p], nl[:50], a2, "single")
    if (a1.n, a1.violations) != (a2.n, a2.violations):
        raise HarnessError("non-deterministic")
    acc1 = par.merge(par.pmap(_work1, pats, seed=ctx.seed, chunks_per_job=8))
    pre = ("", "!", "!!")
    pool = [x + p for p in POOL for x in pre]
    lists = [(p,) for p in pool] + list(itertools.permutations(pool, 2))
    pool3 = [x + p for p in POOL3 for x in pre]
    if ctx.thorough:
        lists += list(itertools.permutations(pool3, 3))
    else:
        lists += list(itertools.combinations(pool3, 3))
    acc2 = par.merge(par.pmap(_work2, lists, seed=ctx.seed, chunks_per_job=8))
    b_items = batch_items(ctx)
    acc3 = par.merge(par.pmap(_work3, b_items, seed=ctx.seed, chunks_per_job=8))
    acc4 = SigAcc()
    part4(acc4)
    t_lists = [(p,) for p in pool] + [l for l in itertools.combinations(pool3, 2)]
    t_lists += [tuple(padded(x, {pos: p}, 100, category(p), x == "!")) for x in pre for p in POOL3 for pos in (0, 98, 99, 100)]
    acc5 = par.merge(par.pmap(_work5, t_lists, seed=ctx.seed, chunks_per_job=2))
    allv = []
    for a in (acc1, acc2, acc3, acc4, acc5):
        allv.extend(a.violations)
    ctx.extend(_smallest(allv))
    ctx.assumptions.append("RE: patterns are compared to the whole path (full match), as the property statement says; "
                           "whether a negated character group matches '/' is left open (both readings accepted)")
    ctx.assumptions.append("backslash escapes, named character classes and Windows separators are outside the alphabet")
    total = acc1.n + acc2.n + acc3.n + acc4.n + acc5.n
    nt = sum(a.counters.get(k, 0) for a, k in ((acc1, "nt1"), (acc2, "nt2"), (acc3, "nt3"), (acc5, "nt5")))
    return {
        "evaluations": total,
        "single_patterns": len(pats), "names": len(nl), "single_evaluations": acc1.n,
        "lists": len(lists), "list_names": len(LNAMES), "list_evaluations": acc2.n,
        "batch_globsters": len(b_items), "batch_evaluations": acc3.n,
        "doc_example_evaluations": acc4.n,
        "tree_ignore_files": len(t_lists), "tree_evaluations": acc5.n,
        "outside_domain": sum(a.counters.get("outside_domain", 0) for a in (acc1, acc2, acc3, acc5)),
        "distinct_nontrivial": nt,
        "distinct_outcomes": len(acc1.outcomes) + len(acc2.outcomes) + len(acc3.outcomes),
        "rule": "distinct by construction; non-trivial = single pattern matching some but not all names; list with >1 pattern "
                "and an exception; every padded Globster (>= 98 patterns); every .bzrignore file",
        "max_pattern_tokens": L, "tokens": list(TOKENS), "regex_pool": list(RE_POOL),
        "samples": [{"pattern": pats[100], "names": nl[:5]}, {"list": list(lists[700])},
                    {"batch": [b_items[5][0], list(b_items[5][1]), b_items[5][2], list(b_items[5][3])]}],
        "exhaustive": True,
    }
