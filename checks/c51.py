"""C51 - Rebase plans replay exactly the branch's own revisions onto the new base.

Bounded exhaustive enumeration over every DAG history with <= N revisions
(ordered parents, <= 2 parents, merges of merges) and every (branch tip, onto)
pair, every stop / start revision and both values of skip_full_merged, of the
real plan generators in breezy/plugins/rewrite/rebase.py: generate_simple_plan
on the todo set the rebase command computes (graph.find_difference(stop, onto)),
generate_transpose_plan for every set of <= 2 renamed revisions, rebase_todo and
the marshall/unmarshall pair (also through RebaseState1 on a real working tree).
The graph is a real breezy/vcsgraph Graph; in a second part the same plans are
computed on real 2a repositories and executed with rebase() +
CommitBuilderRevisionRewriter, and the resulting revision graph is compared.
Oracle (from the statement, computed on the declarative DAG): rewritten set ==
ancestry(stop) - ancestry(onto); in plan order every new parent is the new base
or the new id of an earlier entry; the rewritten tip's new ancestry is exactly
ancestry(onto) + the rewritten copies; save/load returns the identical plan.
"""
import itertools

from mc import gen, par
from mc.evidence import HarnessError

from . import _dagworld as dw

ID = "C51"
LEVEL = "exploration"
TECHNIQUE = "exhaustive small-scope enumeration of DAG histories x (tip, onto, stop, start, options) on the real plan generators, plus execution of the plans on real repositories"

rid = dw.rid


def newid(old, parents=None):
    return b"new-" + old


def _graph(dag, extra=None):
    from vcsgraph.graph import DictParentsProvider, Graph
    # same convention as a repository graph: a root's parents are (null:,)
    pm = {rid(i): tuple(rid(p) for p in ps) or (dw.NULL,) for i, ps in enumerate(dag)}
    pm[dw.NULL] = ()
    if extra:
        pm.update(extra)
    return Graph(DictParentsProvider(pm)), pm


def _viol(acc, sig, detail):
    acc.violation(sig, detail)


def check_simple_plan(acc, ref, graph, tip, onto, stop, start, skip, where, todo_from=None, gen_id=None):
    """Run generate_simple_plan the way cmd_rebase does and judge the result.

    todo_from: node whose difference with onto forms the todo set (default: stop).
    """
    from breezy.errors import UnrelatedBranches
    from breezy.plugins.rewrite import rebase as R
    dag = ref.dag
    gen_id = gen_id or newid
    base = stop if todo_from is None else todo_from
    todo_ref = ref.anc(base) - ref.anc(onto)
    detail = {"dag": dag, "tip": tip, "onto": onto, "stop": stop, "start": start,
              "skip_full_merged": skip, "graph": where, "todo_from": base}
    our_new, _onto_unique = graph.find_difference(rid(base), rid(onto))
    if {dw.num(r) for r in our_new} != set(todo_ref):
        _viol(acc, "find_difference:not-ancestry-difference:" + where, dict(detail, got=sorted(our_new)))
        return None
    if not todo_ref:
        return None
    acc.n += 1
    mode = "strict" if (start is None and not skip and todo_from is None) else (
        "skip" if (start is None and todo_from is None) else "partial")
    try:
        plan = R.generate_simple_plan(set(our_new), None if start is None else rid(start), rid(stop),
                                      rid(onto), graph, gen_id, skip)
    except UnrelatedBranches:
        acc.outcomes.add("UnrelatedBranches")
        if start is None and not (ref.anc(stop) & ref.anc(onto)):
            return None
        _viol(acc, "simple_plan:UnrelatedBranches-with-common-ancestor:" + where, detail)
        return None
    except Exception as e:  # noqa
        _viol(acc, "simple_plan:%s:%s:%s" % (mode, dw.exc_sig(e), where), detail)
        return None
    if start is None and not (ref.anc(stop) & ref.anc(onto)):
        _viol(acc, "simple_plan:no-UnrelatedBranches-without-common-ancestor:" + where, detail)
    keys = [dw.num(k) for k in plan]
    detail = dict(detail, plan={k: v for k, v in plan.items()})
    kset = set(keys)
    if len(todo_ref) > 1:
        acc.nt((dag, tip, onto, stop, start, skip, where))
    # -- (a) which revisions are rewritten
    if mode == "strict":
        if kset != set(todo_ref):
            _viol(acc, "simple_plan:rewritten-set-differs-from-branch-minus-target:" + where,
                  dict(detail, expected=sorted(todo_ref)))
    else:
        if not kset <= set(todo_ref):
            _viol(acc, "simple_plan:%s:rewrites-revision-outside-todo-set:%s" % (mode, where), detail)
        if mode == "skip":
            # documented: only "revisions that merge already merged revisions" may be skipped
            for r in set(todo_ref) - kset:
                if len(dag[r]) < 2:
                    _viol(acc, "simple_plan:skip:non-merge-revision-skipped:" + where, dict(detail, skipped=r))
                    break
        if mode == "partial" and start is not None:
            if not {stop, start} <= kset and not skip:
                _viol(acc, "simple_plan:partial:start-or-stop-not-rewritten:" + where, detail)
            must = (ref.anc(stop) - ref.anc(onto)) & {x for x in todo_ref if start in ref.anc(x)}
            if not skip and not must <= kset:
                _viol(acc, "simple_plan:partial:revision-between-start-and-stop-not-rewritten:" + where,
                      dict(detail, expected_at_least=sorted(must)))
    # -- (b) order / new parents, (c) ids
    new_of = {}
    seen_new = set()
    ok = True
    for old, (new, parents) in plan.items():
        if not isinstance(parents, tuple) or new == old or new in seen_new or not parents:
            _viol(acc, "simple_plan:malformed-entry:" + where, detail)
            ok = False
            break
        for p in parents:
            if p == rid(onto) or p in seen_new:
                continue
            pn = dw.num(p)
            if pn in kset:
                # an old revision that is itself rewritten: stale reference or wrong order
                sig = "old-id-of-rewritten-revision-as-new-parent"
            elif mode == "strict":
                sig = "new-parent-neither-new-base-nor-rewritten-earlier"
            elif p in new_of.values() or p.startswith(b"new"):
                sig = "new-parent-rewritten-later"
            elif isinstance(pn, int) and pn in todo_ref:
                # a not-rewritten (skipped / out of range) revision of the branch kept as parent:
                # its ancestry must not contain old copies of rewritten revisions
                if ref.anc(pn) & kset:
                    sig = "unrewritten-parent-drags-in-old-copies-of-rewritten-revisions"
                else:
                    continue
            elif isinstance(pn, int) and pn in ref.anc(onto):
                continue    # unchanged revision of the target (accepted reading: "preserved reference")
            else:
                sig = "unknown-new-parent"
            if sig.startswith("unrewritten-parent-drags") and skip:
                # one defect, whatever the graph implementation / start revision
                _viol(acc, "simple_plan:skip_full_merged:child-of-skipped-merge-keeps-old-merge-as-parent",
                      dict(detail, entry=old, parent=p))
            else:
                _viol(acc, "simple_plan:%s:%s:%s" % (mode, sig, where), dict(detail, entry=old, parent=p))
            ok = False
            break
        if not ok:
            break
        seen_new.add(new)
        new_of[old] = new
    # -- (d) the new graph: ancestry of every rewritten revision
    if ok and mode == "strict":
        newpar = {v[0]: v[1] for v in plan.values()}
        for old, (new, parents) in plan.items():
            anc_new = set()
            anc_old = set()
            todo = [new]
            while todo:
                x = todo.pop()
                if x in newpar:
                    if x not in anc_new:
                        anc_new.add(x)
                        todo.extend(newpar[x])
                else:
                    anc_old |= ref.anc(dw.num(x))
            exp_new = {new_of[rid(x)] for x in ref.anc(dw.num(old)) if x in kset}
            if anc_new != exp_new or anc_old != set(ref.anc(onto)):
                _viol(acc, "simple_plan:new-ancestry-is-not-target-plus-rewritten-copies:" + where,
                      dict(detail, entry=old, new_part=sorted(anc_new), old_part=sorted(anc_old)))
                break
    acc.outcomes.add((mode, len(plan), max((len(v[1]) for v in plan.values()), default=0)))
    return plan


def check_marshall(acc, plan, last_info, detail):
    from breezy.plugins.rewrite import rebase as R
    acc.count("marshall")
    try:
        text = R.marshall_rebase_plan(last_info, plan)
        back = R.unmarshall_rebase_plan(text)
    except Exception as e:  # noqa
        _viol(acc, "marshall:%s" % dw.exc_sig(e), detail)
        return
    if not isinstance(text, bytes) or back[0] != last_info or back[1] != plan or \
            list(back[1].items()) != list(plan.items()):
        _viol(acc, "marshall:round-trip-differs", dict(detail, text=text, back=back))


def check_transpose(acc, ref, dag, renamed):
    """generate_transpose_plan with `renamed` (tuple of nodes) replaced by fresh copies."""
    from breezy.plugins.rewrite import rebase as R
    ren = {rid(r): b"x-" + rid(r) for r in renamed}
    extra = {ren[rid(r)]: tuple(ren.get(rid(p), rid(p)) for p in dag[r]) or (dw.NULL,) for r in renamed}
    graph, pm = _graph(dag, extra)
    tips = [rid(h) for h in gen.heads(dag, range(len(dag)))]
    detail = {"dag": dag, "renames": ren}
    acc.n += 1
    try:
        plan = R.generate_transpose_plan(list(graph.iter_ancestry(tips)), dict(ren), graph, newid)
    except Exception as e:  # noqa
        _viol(acc, "transpose_plan:%s" % dw.exc_sig(e), detail)
        return None
    detail["plan"] = dict(plan)
    desc = {c for c in range(len(dag)) if any(r in ref.anc(c) and r != c for r in renamed)} - set(renamed)
    if len(desc) > 1:
        acc.nt((dag, renamed))
    if {dw.num(k) for k in plan} != desc:
        _viol(acc, "transpose_plan:rewritten-set-differs-from-descendants-of-renamed", dict(detail, expected=sorted(desc)))
        return plan
    for c in desc:
        new, parents = plan[rid(c)]
        exp = tuple(ren[rid(p)] if p in renamed else (newid(rid(p)) if p in desc else rid(p)) for p in dag[c])
        if new != newid(rid(c)) or parents != exp:
            _viol(acc, "transpose_plan:new-parents-not-the-mapped-old-parents", dict(detail, entry=rid(c), expected=exp))
            return plan
    acc.outcomes.add(("transpose", len(plan)))
    return plan


def pairs_covering(ref, n):
    """(tip, onto) with tip != onto whose joint ancestry is the whole DAG."""
    for tip in range(n):
        for onto in range(n):
            if tip != onto and len(ref.anc(tip) | ref.anc(onto)) == n:
                yield tip, onto


def _work(chunk):
    acc = dw.Acc()
    for dag, do_transpose, max_ren in chunk:
        n = len(dag)
        ref = dw.Ref(dag)
        graph, pm = _graph(dag)
        for tip, onto in pairs_covering(ref, n):
            todo = ref.anc(tip) - ref.anc(onto)
            if not todo:
                continue
            for skip in (False, True):
                plan = check_simple_plan(acc, ref, graph, tip, onto, tip, None, skip, "dict")
                if plan is not None:
                    check_marshall(acc, plan, (len(ref.lefthand(tip)), rid(tip)),
                                   {"dag": dag, "tip": tip, "onto": onto, "skip": skip})
                    acc.sample({"dag": dag, "tip": tip, "onto": onto, "skip_full_merged": skip, "plan": dict(plan)})
                # explicit start (-r start..stop): todo set is still difference(stop, onto)
                for start in sorted(todo):
                    check_simple_plan(acc, ref, graph, tip, onto, tip, start, skip, "dict")
                # stop revision below the head of the todo set (direct API use)
                for stop in sorted(todo - {tip}):
                    check_simple_plan(acc, ref, graph, tip, onto, stop, None, skip, "dict", todo_from=tip)
        if do_transpose:
            for k in range(1, max_ren + 1):
                for renamed in itertools.combinations(range(n), k):
                    plan = check_transpose(acc, ref, dag, renamed)
                    if plan:
                        check_marshall(acc, plan, (n, rid(n - 1)), {"dag": dag, "renamed": renamed})
    return acc


# ---- plans on real repositories, executed -----------------------------------

class _OrderError(Exception):
    pass


class _Replayer:
    """revision_rewriter for rebase(): records an (empty tree) revision with the planned id
    and parents through the real commit builder.  The plan order clause is checked for real:
    every planned parent must already be in the repository when its child is written."""

    def __init__(self, repo):
        self.repo = repo
        self.calls = []
        self.missing = []

    def __call__(self, oldrevid, newrevid, newparents):
        from breezy import config
        self.calls.append(oldrevid)
        for p in newparents:
            if not self.repo.has_revision(p):
                self.missing.append((oldrevid, p))
        if self.missing:
            raise _OrderError(self.missing)
        builder = self.repo.get_commit_builder(
            branch=None, parents=list(newparents), config_stack=config.GlobalStack(), timestamp=1e9,
            timezone=0, committer="R <r@example.com>", revision_id=newrevid)
        try:
            base = newparents[0]
            tree = self.repo.revision_tree(base)
            for _ in builder.record_iter_changes(tree, base, []):
                pass
            builder.finish_inventory()
            builder.commit("replay of %s" % oldrevid.decode())
        except BaseException:
            builder.abort()
            raise


def _real(chunk):
    """Same plans from a real repository's graph, rebase_todo, and execution with rebase()."""
    from breezy.branch import Branch
    from breezy.plugins.rewrite import rebase as R
    acc = dw.Acc()
    for dag in chunk:
        n = len(dag)
        ref = dw.Ref(dag)
        store, url = dw.build(dag)
        try:
            dgraph, _ = _graph(dag)
            for tip, onto in pairs_covering(ref, n):
                todo = ref.anc(tip) - ref.anc(onto)
                if not todo:
                    continue
                tag = b"new%d.%d-" % (tip, onto)

                def gen_id(old, parents=None, tag=tag):
                    return tag + old
                b = Branch.open(url)
                repo = b.repository
                with repo.lock_write():
                    graph = repo.get_graph()
                    for skip in (True, False):
                        plan = check_simple_plan(acc, ref, graph, tip, onto, tip, None, skip, "repo", gen_id=gen_id)
                        try:
                            ref_plan = R.generate_simple_plan({rid(x) for x in todo}, None, rid(tip), rid(onto),
                                                              dgraph, gen_id, skip)
                        except Exception:  # noqa
                            ref_plan = None
                        if plan != ref_plan:
                            _viol(acc, "simple_plan:repository-graph-and-dict-graph-disagree",
                                  {"dag": dag, "tip": tip, "onto": onto, "skip": skip, "repo": plan, "dict": ref_plan})
                        if plan is None or skip or rid(tip) not in plan:
                            continue
                        detail = {"dag": dag, "tip": tip, "onto": onto, "plan": dict(plan)}
                        # rebase_todo before: everything; executing the plan; after: nothing
                        before = list(R.rebase_todo(repo, plan))
                        if before != list(plan):
                            _viol(acc, "rebase_todo:not-all-entries-pending-before-rebase", dict(detail, todo=before))
                        rp = _Replayer(repo)
                        try:
                            R.rebase(repo, plan, rp)
                        except _OrderError:
                            _viol(acc, "rebase:new-parent-not-yet-written-when-child-is-rewritten",
                                  dict(detail, missing=rp.missing))
                            continue
                        except Exception as e:  # noqa
                            _viol(acc, "rebase:%s" % dw.exc_sig(e), detail)
                            continue
                        acc.count("plans_executed")
                        acc.n += 1
                        if sorted(rp.calls) != sorted(plan) or len(set(rp.calls)) != len(rp.calls):
                            _viol(acc, "rebase:rewriter-not-called-exactly-once-per-entry", dict(detail, calls=rp.calls))
                        after = list(R.rebase_todo(repo, plan))
                        if after:
                            _viol(acc, "rebase_todo:entries-pending-after-rebase", dict(detail, todo=after))
                        newtip = plan[rid(tip)][0]
                        got = {r for r, ps in repo.get_graph().iter_ancestry([newtip]) if ps is not None and r != b"null:"}
                        exp = {rid(x) for x in ref.anc(onto)} | {gen_id(rid(x)) for x in todo}
                        if got != exp:
                            _viol(acc, "rebase:executed-plan-ancestry-is-not-target-plus-rewritten-copies",
                                  dict(detail, got=sorted(got), expected=sorted(exp)))
                        pm = repo.get_parent_map([v[0] for v in plan.values()])
                        for old, (new, parents) in plan.items():
                            if pm.get(new) != parents:
                                _viol(acc, "rebase:recorded-parents-differ-from-plan", dict(detail, entry=old, got=pm.get(new)))
                                break
        finally:
            store.close()
    return acc


def _state_roundtrip(acc):
    """RebaseState1 on a real working tree: write_plan / read_plan / remove_plan."""
    from breezy.plugins.rewrite import rebase as R
    from mc import wt as mwt
    tree = mwt.make_tree("bzr")
    with tree.lock_write():
        tree.commit("one", rev_id=b"r0", timestamp=1e9, timezone=0, committer="C <c@example.com>")
        st = R.RebaseState1(tree)
        plans = [{}, {b"r1": (b"new-r1", (b"r0",))},
                 {b"r2": (b"new-r2", (b"r0", b"r1")), b"r3": (b"new-r3", (b"new-r2",))}]
        for plan in plans:
            acc.n += 1
            st.write_plan(plan)
            if not st.has_plan():
                _viol(acc, "RebaseState1:has_plan-false-after-write", {"plan": plan})
            back = st.read_plan()
            if back != (tree.branch.last_revision_info(), plan) or list(back[1].items()) != list(plan.items()):
                _viol(acc, "RebaseState1:read_plan-differs-from-written", {"plan": plan, "back": back})
            st.remove_plan()
            if st.has_plan():
                _viol(acc, "RebaseState1:has_plan-true-after-remove", {"plan": plan})
    mwt.rmtree(tree.basedir)


def replay(ctx, data):
    d = data["first"]
    if "stop" not in d:
        return True
    dag = tuple(tuple(p) for p in d["dag"])
    acc = dw.Acc()
    graph, _ = _graph(dag)
    check_simple_plan(acc, dw.Ref(dag), graph, d["tip"], d["onto"], d["stop"], d["start"], d["skip_full_merged"],
                      "dict", todo_from=None if d["todo_from"] == d["stop"] else d["todo_from"])
    for sig, det in acc.violations:
        print("  ", sig, det.get("plan"))
    return not acc.violations


def run(ctx):
    N = ctx.q(5, 6)
    NT = ctx.q(4, 5)        # transpose plans
    NR = ctx.q(4, 5)        # real repositories, executed
    items = []
    for n in range(2, N + 1):
        for dag in gen.dags(n):
            items.append((dag, n <= NT, 2 if n <= ctx.q(4, 4) else 1))
    acc = par.merge(par.pmap(_work, items, seed=ctx.seed, chunks_per_job=8))
    real_items = [d for n in range(2, NR + 1) for d in gen.dags(n)]
    acc2 = par.merge(par.pmap(_real, real_items, seed=ctx.seed, chunks_per_job=8))
    acc3 = dw.Acc()
    _state_roundtrip(acc3)
    # determinism audit: the first dags twice
    a1 = _work(items[:25])
    a2 = _work(items[:25])
    # (the order of plan entries among unrelated revisions comes from vcsgraph's topo_sort and is not
    # stable between calls, so only order-insensitive observations are compared)
    if (a1.n, sorted(map(repr, a1.outcomes)), sorted(v[0] for v in a1.violations)) != \
            (a2.n, sorted(map(repr, a2.outcomes)), sorted(v[0] for v in a2.violations)):
        raise HarnessError("non-deterministic plan generation")
    for a in (acc, acc2, acc3):
        best = {}
        for sig, d in a.violations:
            k = (len(d.get("dag", ())), d.get("start") is not None, repr(d.get("dag")), repr(d))
            if sig not in best or k < best[sig][0]:
                best[sig] = (k, d)
        for sig in sorted(best):
            ctx.violation(sig, best[sig][1])
    ctx.assumptions.append("generate_revid is a pure function of the old revision id (as in the callers)")
    ctx.assumptions.append("explicit start revisions / stop below the todo head / skip_full_merged are judged by the weaker "
                           "'references to unrewritten revisions are preserved' reading of the docstring")
    return {
        "evaluations": acc.n + acc2.n + acc3.n,
        "plans_on_dict_graph": acc.n,
        "plans_on_real_repositories": acc2.n,
        "plans_executed": acc2.counters.get("plans_executed", 0),
        "marshall_roundtrips": acc.counters.get("marshall", 0),
        "distinct_nontrivial": len(acc.nontrivial | acc2.nontrivial),
        "rule": "non-trivial = more than one revision in ancestry(branch) - ancestry(onto) (simple plans) / more than one descendant of the renamed revisions (transpose plans)",
        "distinct_outcomes": len(acc.outcomes | acc2.outcomes),
        "max_dag_nodes": N, "max_dag_nodes_transpose": NT, "max_dag_nodes_executed": NR,
        "dags": len(items), "dags_real": len(real_items),
        "violations_raw": acc.counters.get("violations_raw", 0) + acc2.counters.get("violations_raw", 0),
        "samples": acc.samples[:3],
        "exhaustive": True,
    }
