"""C05 - Concurrent pack writers and packers never lose committed data.

Schedule exploration: two simulated processes (own object graphs, own branches)
share one real pack repository behind the seam; every transport operation under
the repository directory is a scheduling point; all schedules up to a preemption
bound are run.  Process menu: W commit, A commit that triggers autopack, P pack(),
Q pack(clean_obsolete_packs=True), R reader of every pre-existing revision.
Oracle (the clauses of the statement):
 V1 at the end, from a fresh open, every revision whose commit returned is listed
    and fully readable and check() is clean;
 V2 a reader of revisions that exist throughout never fails;
 V3 every pack-names write is a three-way merge: a name that disappears from the
    list was known to the writer (it had read a list containing it) and a name
    that appears is a pack the writer itself just created;
 V4 at every step every listed pack has its .pack and index files in place.
Writers that abort without losing anybody's data are outcomes, not violations.
"""
import re

from mc import par, procs, repocheck
from mc import world as mw
from mc.evidence import HarnessError
from mc.vfs import new_store

ID = "C05"
LEVEL = "model_checking"
TECHNIQUE = "stateless schedule exploration (iterative preemption bounding) of real repository processes over a transport seam"

REPO = "/shared/.bzr/repository/"


def spec(tag):
    return {"a": mw.F(b"a-id", b"content %s\n" % tag), "f-" + tag.decode(): mw.F(b"f-" + tag, tag)}


class World:
    def __init__(self):
        from breezy.bzr import pack_repo
        self.pack_repo = pack_repo
        self.store = new_store()
        procs.install_virtual_time()
        self.snaps = {}

    def initial(self, fmt, npacks, nbranches=3):
        key = (fmt, npacks)
        if key in self.snaps:
            return self.snaps[key]
        from breezy import controldir
        s = self.store
        s.restore({})
        t = s.transport()
        t.mkdir("shared")
        f = controldir.format_registry.make_controldir(fmt)
        f.initialize_on_transport(t.clone("shared")).create_repository(shared=True)
        orig = self.pack_repo.RepositoryPackCollection._max_pack_count
        self.pack_repo.RepositoryPackCollection._max_pack_count = lambda s_, t_: 10 ** 6
        try:
            bs = [mw.make_branch(s.transport("shared/b%d" % i), fmt) for i in range(nbranches)]
            base = []
            n = 0
            i = 0
            tips = [None] * nbranches
            while n < npacks:
                b = bs[i % nbranches]
                rid = b"base-%d-%d" % (i % nbranches, n)
                mw.commit_spec(b, rid, [tips[i % nbranches]] if tips[i % nbranches] else [], spec(b"%d" % n))
                tips[i % nbranches] = rid
                base.append(rid)
                n += 1
                i += 1
        finally:
            self.pack_repo.RepositoryPackCollection._max_pack_count = orig
        self.snaps[key] = (s.walk(), tuple(base), tuple(tips))
        return self.snaps[key]


_W = None


def world():
    global _W
    if _W is None:
        _W = World()
    return _W


def make_bodies(w, kinds, base, tips, committed):
    from breezy.branch import Branch
    from breezy.repository import Repository
    url = w.store.url

    def W_(i):
        b = Branch.open(url + "shared/b%d" % i)
        rid = b"new-%d" % i
        mw.commit_spec(b, rid, [tips[i]] if tips[i] else [], spec(b"n%d" % i))
        committed.append(rid)
        return "committed"

    def P(i):
        Repository.open(url + "shared").pack()
        return "packed"

    def Q(i):
        Repository.open(url + "shared").pack(clean_obsolete_packs=True)
        return "packed"

    def R(i):
        r = Repository.open(url + "shared")
        repocheck.full_read(r, list(base))
        return "read"

    table = {"W": W_, "A": W_, "P": P, "Q": Q, "R": R}

    def guarded(k):
        f = table[k]

        def g(i):
            try:
                return f(i)
            except Exception as e:  # noqa
                import traceback
                tb = traceback.extract_tb(e.__traceback__)
                fr = [x for x in tb if "/breezy/" in x.filename]
                where = "%s:%s" % (fr[-1].filename.split("/breezy/")[-1], fr[-1].name) if fr else "?"
                return "error:%s@%s" % (type(e).__name__, where)
        return g
    return [guarded(k) for k in kinds]


def read_names(store):
    """Names listed in pack-names right now (parsed with the real index reader)."""
    from bzrformats.index import GraphIndex
    from bzrformats.btree_index import BTreeGraphIndex
    raw = store.raw("shared/.bzr/repository")
    try:
        data = raw.get_bytes("pack-names")
    except Exception:
        return None
    cls = BTreeGraphIndex if data.startswith(b"B+Tree") else GraphIndex
    idx = cls(raw, "pack-names", len(data))
    return frozenset(k[0][0].decode() if isinstance(k[0], tuple) else k[0].decode()
                     for k in (n[1:2] for n in idx.iter_all_entries()))


def make_monitor(w):
    st = {"seen": {}, "created": {}, "names": read_names(w.store), "states": set(), "steps": {}}

    def monitor(sim, ch, op):
        store = w.store
        v = None
        if op is None:
            return None
        st["steps"][ch] = st["steps"].get(ch, 0) + 1
        if st.get("last_ch") != ch:
            # the simulated processes share one interpreter and with it bzrformats' process-wide CHK page
            # cache: drop it whenever another process gets to run, so that no process is served pages
            # another one read (for the process itself this is an ordinary LRU eviction)
            from bzrformats import chk_map
            chk_map.clear_cache()
            st["last_ch"] = ch
        if op.kind in ("get", "readv") and op.path == REPO + "pack-names":
            st["seen"].setdefault(ch, set()).update(st["names"] or ())
        # every executed op (private, non-scheduling ones included) is in sim.ops
        for o in sim.ops[st.get("idx", 0):]:
            if o.kind in ("move", "rename") and o.path.startswith(REPO + "upload/") and \
                    (o.path2 or "").startswith(REPO + "packs/") and not o.failed:
                st["created"].setdefault(o.proc, set()).add(o.path2.rsplit("/", 1)[1][:-5])
        st["idx"] = len(sim.ops)
        relevant = op.path == REPO + "pack-names" or op.path.startswith(REPO + "packs/") or op.path.startswith(REPO + "indices/")
        if op.mutating and not op.failed and relevant:
            prev = st["names"]
            cur = read_names(store) if op.path == REPO + "pack-names" else prev
            if op.path == REPO + "pack-names" and prev is not None and cur is not None:
                seen = st["seen"].get(ch, set())
                dropped = prev - cur
                added = cur - prev
                unknown = dropped - seen
                if unknown:
                    v = ("V3:pack-names-write-dropped-pack-unknown-to-writer", {"writer": ch, "dropped": len(unknown)})
                foreign = added - st["created"].get(ch, set())
                if v is None and foreign:
                    v = ("V3:pack-names-write-added-pack-not-created-by-writer", {"writer": ch, "added": len(foreign)})
                st["seen"].setdefault(ch, set()).update(cur)
            st["names"] = cur
            if v is None and cur:
                files = store.walk("shared/.bzr/repository")
                for n in cur:
                    need = ["packs/%s.pack" % n] + ["indices/%s.%s" % (n, x) for x in ("rix", "iix", "tix", "six")]
                    miss = [x for x in need if REPO + x not in files]
                    if miss:
                        v = ("V4:listed-pack-file-missing", {"after_op_of": ch, "kind": miss[0].rsplit(".", 1)[1]})
                        break
            st["states"].add(hash((cur, tuple(sorted(st["steps"].items())))))
        return v
    monitor.st = st
    return monitor


def make_is_point(initial_names):
    """Scheduling points = operations under the repository directory, except *private* ones.

    Sound reduction: a process's operations on upload/ (random temporary names) and on the
    index/pack files of a pack it is creating and has not yet listed in pack-names touch paths
    no other process can name (names are content hashes / random), so they commute with every
    operation of every other process; interleavings that differ only in their position are
    equivalent.  From the writer's next pack-names write on, the pack is public.
    """
    public = set(initial_names or ())
    own = {}

    def is_point(op):
        if not op.path.startswith(REPO):
            return False
        rel = op.path[len(REPO):]
        if rel == "pack-names":
            if op.kind in ("put", "put_na"):
                public.update(own.pop(op.proc, ()))
            return True
        top, _, rest = rel.partition("/")
        if top == "upload" and rest:
            # the move upload/x -> packs/NAME.pack names the final pack
            if op.kind in ("move", "rename") and op.path2 and op.path2.startswith(REPO + "packs/"):
                name = op.path2.rsplit("/", 1)[1].split(".")[0]
                if name not in public:
                    own.setdefault(op.proc, set()).add(name)
                    return False
                return True
            return False
        if top in ("indices", "packs") and rest:
            name = rest.split(".")[0]
            if name in public:
                return True
            mine = own.setdefault(op.proc, set())
            if name in mine:
                return False
            if op.kind in ("put", "put_na", "append"):
                # first write to a new, unlisted name: this process is creating it
                mine.add(name)
                return False
            return True
        return True
    return is_point


SCN_Q = [
    # fmt, npacks, kinds, bound
    ("2a", 3, ("W", "W"), 2),
    ("2a", 9, ("W", "A"), 1),
    ("2a", 3, ("W", "P"), 1),
    ("2a", 3, ("R", "P"), 2),
    ("2a", 9, ("R", "A"), 1),
    ("2a", 3, ("W", "Q"), 1),
    ("pack-0.92", 3, ("W", "W"), 1),
    ("pack-0.92", 3, ("R", "Q"), 1),
]
SCN_T = [
    # Scenarios added by the thorough tier.  The bound-2 versions of W||P, W||Q, W||A, R||A, R||Q, P||Q
    # and the three-process scenarios W||W||P and R||W||P that an earlier version listed here need more
    # than 40 minutes on 16 cores since the CHK page cache is dropped on every context switch (more page
    # reads = more scheduling points); they were not completed on the final tree and are therefore not
    # claimed.  ("2a", 9, ("A", "Q"), 1) is left out because autopack of 9 equal-sized packs breaks ties
    # by the random, Rust-generated pack names, so schedules are not replayable.
    ("2a", 3, ("R", "Q"), 1),
    ("2a", 3, ("P", "Q"), 1),
    ("pack-0.92", 3, ("W", "P"), 1),
    ("pack-0.92", 3, ("R", "P"), 1),
]


def run_one(scn, prefix):
    fmt, npacks, kinds, bound = scn
    w = world()
    snap, base, tips = w.initial(fmt, npacks)
    w.store.restore(snap)
    w.store.log.clear()
    committed = []
    bodies = make_bodies(w, kinds, base, tips, committed)
    sim = procs.Sim(w.store, bodies, prefix, monitor=make_monitor(w),
                    is_point=make_is_point(read_names(w.store)), horizon=4000)
    sim.run()
    sim.committed = committed
    sim.base = base
    return sim


def canon(s):
    s = re.sub(r"[0-9a-f]{32}", "<pack>", s)
    s = re.sub(r"upload/[a-z0-9]{20}", "upload/<tmp>", s)
    s = re.sub(r"(releasing|broken)\.[a-z0-9]{20}", r"\1.<rnd>", s)
    s = re.sub(r"lock/[a-z0-9]{10}\.tmp", "lock/<rnd>.tmp", s)
    return re.sub(r"\[\d+ bytes\]", "[..]", s)


def final_check(w, sim, scn):
    from breezy.repository import Repository
    r = Repository.open(w.store.url + "shared")
    with r.lock_read():
        vis = set(r.all_revision_ids())
    want = set(sim.base) | set(sim.committed)
    if not want <= vis:
        return ("V1:committed-revision-not-listed", {"missing": sorted(want - vis)})
    try:
        repocheck.full_read(r, sorted(want))
    except Exception as e:  # noqa
        return ("V1:committed-revision-unreadable:%s" % type(e).__name__, {"error": repr(e)[:300]})
    probs = repocheck.check_problems(r)
    if probs:
        return ("V1:check-not-clean", {"problems": probs})
    return None


def _observe(acc, scn, sim):
    w = world()
    acc.n += 1
    acc.count("transitions", len(sim.points))
    if sim.livelock:
        acc.violation("livelock:horizon-hit", {"scenario": list(scn), "schedule": sim.choices()[:200]})
        return
    for e in sim.errs:
        if e is not None:
            raise HarnessError("unguarded process error %r" % (e,))
    kinds = scn[2]
    v = sim.violation
    if v is None:
        for i, res in enumerate(sim.results):
            if isinstance(res, str) and res.startswith("error:"):
                if kinds[i] == "R":
                    v = ("V2:reader-failed:" + res[6:], {"reader": i})
                    break
                acc.outcomes.add(("aborted", kinds[i], res))
                acc.count("aborted_operations")
    if v is None:
        v = final_check(w, sim, scn)
    acc.outcomes.add((scn[0], scn[2], tuple(r if isinstance(r, str) else "?" for r in sim.results)))
    if sim.preemptions():
        acc.nt((scn[:3], tuple(sim.choices())))
    acc.states = getattr(acc, "states", set())
    acc.states |= {hash((scn[:3], x)) for x in sim.monitor.st["states"]}
    if v:
        d = dict(v[1])
        d.update({"scenario": list(scn), "schedule": sim.choices(), "preemptions": sim.preemptions(),
                  "results": list(sim.results),
                  "trace_tail": [("P%d " % p) + canon(b) for p, b in sim.trace][-40:]})
        acc.violation(v[0], d)


def _subtree(items):
    acc = par.Acc()
    for scn, prefix in items:
        scn = tuple(scn)
        procs.explore(lambda p: run_one(scn, p), scn[3], roots=[prefix],
                      on_exec=lambda sim: _observe(acc, scn, sim))
    return acc


def run(ctx):
    scns = list(SCN_Q) + (SCN_T if ctx.thorough else [])
    acc0 = par.Acc()
    work = []
    sizes = {}
    for scn in scns:
        a = run_one(scn, [])
        b = run_one(scn, [])
        ta = [canon(x) for _, x in a.trace]
        tb = [canon(x) for _, x in b.trace]
        # pack names are random (generated in Rust), and a process that walks a directory
        # listing (e.g. clearing obsolete_packs) visits its files in name order: the same
        # operations may come in a different order.  Compare them as multisets.
        if sorted(ta) != sorted(tb) or a.results != b.results:
            raise HarnessError("non-deterministic execution in scenario %r" % (scn,))
        sizes["%s/%d/%s/bound%d" % (scn[0], scn[1], "".join(scn[2]), scn[3])] = len(a.points)
        pre, _ = procs.frontier(lambda p: run_one(scn, p), scn[3], want=64,
                                on_exec=lambda sim: _observe(acc0, scn, sim))
        work.extend((scn, p) for p in pre)
    accs = par.pmap(_subtree, work, seed=ctx.seed)
    states = set(getattr(acc0, "states", set()))
    for a in accs:
        states |= getattr(a, "states", set())
    acc = par.merge([acc0] + accs)
    best = {}
    for sig, d in acc.violations:
        k = (d.get("preemptions", 0), len(d.get("schedule", [])))
        if sig not in best or k < best[sig][0]:
            best[sig] = (k, d)
    for sig in sorted(best):
        ctx.violation(sig, best[sig][1])
    ctx.assumptions += [
        "processes interact only through transport operations on the shared repository; each is atomic",
        "lock polling (LockDir.wait_lock sleep) is a yield until another process mutates the store",
        "pack and lock names generated inside Rust are random; schedules are sequences of process ids, traces are canonicalised",
    ]
    sample = run_one(scns[0], [])
    return {
        "states": len(states),
        "transitions": acc.counters.get("transitions", 0),
        "traces_validated_against_impl": acc.n,
        "evaluations": acc.n,
        "distinct_nontrivial": len(acc.nontrivial),
        "rule": "one evaluation = one complete schedule; non-trivial = >=1 preemption; states = distinct (pack-names content, per-process progress) after mutating steps",
        "scenario_points_default_schedule": sizes,
        "aborted_operations": acc.counters.get("aborted_operations", 0),
        "distinct_outcomes": sorted(repr(o) for o in acc.outcomes)[:60],
        "samples": [{"scenario": list(scns[0]), "schedule": sample.choices()[:60],
                     "trace_head": [("P%d " % p) + canon(b) for p, b in sample.trace][:30]}],
        "exhaustive": True,
    }
