"""C31 helper: the served world (layout, real server stack, raw client, effect observation).

Layout (absolute paths; on the local kind below a scratch directory R):

    /srv/pub/            <- the served directory
        ok               file
        sub/             a real 2a branch (so control-directory verbs have positive controls)
        home/hf, home/u/ the (empty) home of user "u" (``~u`` expands INTO the served directory)
        in/ (+marker)    only in the "jail" layout: a second branch
    /srv/pub-private/, /srv/pub.bak/   only in the "plain jail" layout, variant A: branches + canary
                     markers next to the served directory, names extending its name
    /srv/secret          canary file                                  } variant A only;
    /srv/secretdir/      a real 2a branch + canary file ``marker``    } variant B has nothing
    /home/evil/x         canary file (``~`` and ``~evil`` expand here) } outside the served dir

The server side is the real ``BzrServerFactory._make_backing_transport`` (chroot + userdir
filter) over (kind "vfs") an mc.vfs store = logging decorator over dromedary's real
MemoryTransport, or (kind "local") dromedary's real LocalTransport on /dev/shm, served by a
real ``SmartServerPipeStreamMedium`` per request (checks/_loopback_l.py).  Requests are sent
raw with the real ``_SmartClient``.
"""
import os
import posixpath
import re
import shutil

from breezy import errors as berrors
from breezy.bzr.smart import client as smart_client
from breezy.bzr.smart import server as smart_server
from breezy.transport import get_transport
from dromedary import errors as terrors

from mc import boot, vfs
from mc import world as mw
from mc.evidence import HarnessError

from ._loopback_l import LoopMedium

CANARIES = {
    "srv/secret": b"CANARY-9c41f0-SECRET-FILE",
    "srv/secretdir/marker": b"CANARY-77ab1e-SECRETDIR-MARKER!",
    "home/evil/x": b"CANARY-e3d2-EVIL-HOME",
}
SIBLING_CANARIES = {
    "srv/pub-private/marker": b"CANARY-51b0-PUB-PRIVATE-MARKER",
    "srv/pub.bak/marker": b"CANARY-0fe2-PUB-BAK-MARKER!!",
}
INSIDE_FILES = {
    "srv/pub/ok": b"public-ok",
    "srv/pub/home/hf": b"a-file-in-home",
}
SERVED = "/srv/pub"
_ID_RE = re.compile(rb"(chroot|filtered|memory)[-+]\d+")
_HEX_RE = re.compile(rb"0x[0-9a-fA-F]+")
_TMP_RE = re.compile(rb"\.tmp[A-Za-z0-9_]{6}")       # random names of LocalTransport's atomic-put temp files
VERIFY_RESTORE = bool(os.environ.get("C31_VERIFY_RESTORE"))


def _norm(p):
    p = posixpath.normpath(p)
    while p.startswith("//"):
        p = p[1:]
    return p


def inside(p):
    p = _norm(p)
    return p == SERVED or p.startswith(SERVED + "/")


class World:

    def __init__(self, kind, variant, jail=False, plain=False):
        self.kind = kind
        self.variant = variant
        self.jail = jail
        self.plain = plain
        if kind == "vfs":
            self.store = vfs.new_store()
            self.R = ""
            self.base_url = self.store.url
            raw = self.store.raw()
            self.prefixes = [self.store.scheme.encode()]
        else:
            self.store = None
            self.R = boot.scratch("c31")
            self.base_url = "file://" + self.R + "/"
            raw = get_transport(self.base_url)
            self.prefixes = [self.R.encode()]
        self.raw = raw
        for d in ("srv", "srv/pub", "srv/pub/home", "srv/pub/home/u"):
            raw.mkdir(d)
        for p, data in INSIDE_FILES.items():
            raw.put_bytes(p, data)
        mw.make_branch(self.base_url + "srv/pub/sub", "2a")
        if jail:
            mw.make_branch(self.base_url + "srv/pub/in", "2a")
            raw.put_bytes("srv/pub/in/marker", b"inside-marker")
        if variant == "A" and plain:
            # siblings of the served directory whose NAMES extend its name
            mw.make_branch(self.base_url + "srv/pub-private", "2a")
            raw.put_bytes("srv/pub-private/marker", SIBLING_CANARIES["srv/pub-private/marker"])
            mw.make_branch(self.base_url + "srv/pub.bak", "2a")
            raw.put_bytes("srv/pub.bak/marker", SIBLING_CANARIES["srv/pub.bak/marker"])
        if variant == "A":
            for d in ("home", "home/evil"):
                raw.mkdir(d)
            mw.make_branch(self.base_url + "srv/secretdir", "2a")
            for p, data in CANARIES.items():
                raw.put_bytes(p, data)
        elif kind == "local":
            os.chmod(os.path.join(self.R, "srv"), 0o700)
        # the real server stack
        R = self.R

        def expand(p):
            if p.startswith("~u"):
                return R + "/srv/pub/home/u" + p[2:]
            if p.startswith("~evil"):
                return R + "/home/evil" + p[5:]
            if p.startswith("~"):
                return R + "/home/evil" + p[1:]     # the server user's own home: outside
            return p

        if kind == "vfs":
            self.factory = smart_server.BzrServerFactory(userdir_expander=expand,
                                                         get_base_path=lambda t: "/srv/pub/")
            self.bottom = self.store.transport("srv/pub")
        else:
            self.factory = smart_server.BzrServerFactory(userdir_expander=expand)
            self.bottom = get_transport(self.base_url + "srv/pub")
        self.factory._make_backing_transport(self.bottom)
        if self.factory.base_path is None:
            raise HarnessError("no base path: the userdir filter is not installed")
        self.backing = self.factory.transport
        if plain:
            # the jail root is a plain (non-chroot) transport, as SmartServerRequestHandler, the WSGI
            # application or SmartTCPServer get when they are constructed on one
            self.backing = self.bottom
        self.medium = LoopMedium("bzr://c31/", self.backing)
        self.client = smart_client._SmartClient(self.medium)
        self.pristine = self.snapshot()
        self.pristine_inside = {p: v for p, v in self.pristine.items() if inside(p)}
        self.pristine_outside = {p: v for p, v in self.pristine.items() if not inside(p)}
        self._under = {}
        for p in sorted(self.pristine_inside):
            if p != SERVED:
                self._under.setdefault(p[len(SERVED) + 1:].split("/", 1)[0], []).append(p)
        self.base_fp = self.fingerprint() if kind == "local" else None
        if self.store is not None:
            self.store.log = []

    def close(self):
        for c in reversed(self.factory.cleanups):
            try:
                c()
            except Exception:
                pass
        if self.store is not None:
            self.store.close()
        else:
            shutil.rmtree(self.R, ignore_errors=True)

    # -- state -----------------------------------------------------------------------------
    def snapshot(self):
        """{abs path: bytes | None (directory)} of the whole world."""
        if self.store is not None:
            return self._walk_store(False)
        out = {}
        for dp, dns, fns in os.walk(self.R):
            rel = dp[len(self.R):]
            for d in dns:
                out[rel + "/" + d] = None
            for fn in fns:
                with open(os.path.join(dp, fn), "rb") as f:
                    out[rel + "/" + fn] = f.read()
        return out

    def fingerprint(self):
        """Cheap change detector for the local kind (names, kinds, sizes, inodes, modes)."""
        out = []
        stack = [self.R]
        while stack:
            d = stack.pop()
            with os.scandir(d) as it:
                for e in it:
                    st = e.stat(follow_symlinks=False)
                    if e.is_dir(follow_symlinks=False):
                        out.append((e.path, st.st_mode, 0, st.st_ino))
                        stack.append(e.path)
                    else:
                        out.append((e.path, st.st_mode, st.st_size, st.st_ino, st.st_mtime_ns))
        out.sort()
        return out

    def _clear_store_dir(self, t, d):
        """Remove everything below directory d ("" = root) of the memory store, files included."""
        import stat as _stat
        try:
            names = t.list_dir(d or ".")
        except terrors.NoSuchFile:
            return
        for n in names:
            p = (d + "/" + n) if d else n
            try:
                if _stat.S_ISDIR(t.stat(p).st_mode):
                    t.delete_tree(p)
                else:
                    t.delete(p)
            except terrors.NoSuchFile:
                raise HarnessError("C31: cannot clean %r out of the memory store" % p)

    def _write_snapshot(self, snap, only_inside):
        if self.store is not None:
            try:
                self._write_store(snap, only_inside)
                if self._walk_store(False) != self.pristine:
                    raise HarnessError("restore incomplete")
            except (terrors.TransportError, HarnessError):
                # the memory store got entries its own API cannot remove (e.g. one named ".."):
                # throw the whole world away and build a fresh, identical one
                self.rebuilds = getattr(self, "rebuilds", 0) + 1
                n = self.rebuilds
                self.close()
                self.__init__(self.kind, self.variant, self.jail, self.plain)
                self.rebuilds = n
            return
        self._write_local(snap, only_inside)

    def _write_store(self, snap, only_inside):
        if True:
            t = self.store.raw()
            if only_inside:
                # (the memory transport lets put_bytes shadow a directory with a file entry)
                try:
                    if not __import__("stat").S_ISDIR(t.stat("srv/pub").st_mode):
                        t.delete("srv/pub")
                except terrors.NoSuchFile:
                    pass
                try:
                    t.mkdir("srv/pub")
                except terrors.FileExists:
                    pass
                self._clear_store_dir(t, "srv/pub")
                self.store.load({p: v for p, v in snap.items() if p not in (SERVED, "/")})
            else:
                self._clear_store_dir(t, "")
                self.store.load({p: v for p, v in snap.items() if p != "/"})
            return

    def _write_local(self, snap, only_inside):
        if only_inside:
            top = self.R + SERVED
            if os.path.isdir(top) and not os.path.islink(top):
                for n in os.listdir(top):
                    p = os.path.join(top, n)
                    if os.path.isdir(p) and not os.path.islink(p):
                        shutil.rmtree(p)
                    else:
                        os.unlink(p)
            else:
                if os.path.lexists(top):
                    os.unlink(top)
                os.mkdir(top)
            items = {p: v for p, v in snap.items() if p != SERVED}
        else:
            for n in os.listdir(self.R):
                p = os.path.join(self.R, n)
                if os.path.isdir(p) and not os.path.islink(p):
                    os.chmod(p, 0o755)
                    shutil.rmtree(p)
                else:
                    os.unlink(p)
            items = snap
        for p in sorted(items):
            if items[p] is None:
                os.mkdir(self.R + p)
            else:
                with open(self.R + p, "wb") as f:
                    f.write(items[p])
        if not only_inside and self.variant == "B":
            os.chmod(os.path.join(self.R, "srv"), 0o700)

    def _walk_store(self, skip_served):
        """{abs path: bytes | None}, read from the real memory store; robust against the odd
        entries hostile requests can create there (names like "." or "..")."""
        import stat as _stat

        from dromedary import urlutils
        t = self.store.raw()
        out = {}
        try:
            # the root directory itself is an entry of the memory store ("rmdir /" removes it)
            out["/"] = None if _stat.S_ISDIR(t.stat(".").st_mode) else b"<root is not a directory>"
        except terrors.TransportError:
            pass
        stack = [""]
        while stack:
            d = stack.pop()
            try:
                names = t.list_dir(d or ".")
            except terrors.TransportError:
                continue
            for n in names:
                p = (d + "/" + n) if d else n
                if skip_served and "/" + p == SERVED:
                    continue
                up = "/" + urlutils.unescape(p)
                if urlutils.unescape(n) in ("", ".", ".."):
                    out[up + "<odd entry>"] = b"<odd entry>"
                    continue
                try:
                    if _stat.S_ISDIR(t.stat(p).st_mode):
                        out[up] = None
                        stack.append(p)
                    else:
                        out[up] = t.get_bytes(p)
                except terrors.TransportError as e:
                    out[up] = b"<unreadable entry: %s>" % type(e).__name__.encode()
        return out

    def outside_snapshot(self):
        """The region outside the served directory (seam variant), read from the real store."""
        return self._walk_store(True)

    def outside_diff(self, snap=None):
        """Differences between the region outside the served directory now and at creation."""
        now = snap if snap is not None else self.snapshot()
        diff = []
        for p in sorted(set(now) | set(self.pristine)):
            if inside(p):
                continue
            a, b = self.pristine.get(p, "absent"), now.get(p, "absent")
            if a != b:
                diff.append((p, _d(a), _d(b)))
        return diff

    def _tops_of(self, paths):
        """Top-level children of the served directory covering the given inside paths, or None
        when a path is not strictly below the served directory."""
        tops = set()
        for q in paths:
            q = _norm(q)
            if not q.startswith(SERVED + "/"):
                return None
            tops.add(q[len(SERVED) + 1:].split("/", 1)[0])
        return tops

    def _restore_tops(self, tops):
        """Put the given children of the served directory back to their creation state."""
        from dromedary import urlutils
        pre = SERVED + "/"
        for top in sorted(tops):
            ap = pre + top
            if self.store is not None:
                t = self.store.raw()
                rel = urlutils.escape(ap[1:])
                for fn in (t.delete_tree, t.delete):
                    try:
                        fn(rel)
                    except terrors.TransportError:
                        pass
                if t.has(rel):
                    return False
                for p in self._under.get(top, ()):
                    if self.pristine[p] is None:
                        t.mkdir(urlutils.escape(p[1:]))
                    else:
                        t.put_bytes(urlutils.escape(p[1:]), self.pristine[p])
            else:
                fp = self.R + ap
                if os.path.islink(fp) or os.path.isfile(fp):
                    os.unlink(fp)
                elif os.path.isdir(fp):
                    shutil.rmtree(fp)
                for p in self._under.get(top, ()):
                    if self.pristine[p] is None:
                        os.mkdir(self.R + p)
                    else:
                        with open(self.R + p, "wb") as f:
                            f.write(self.pristine[p])
        return True

    def settle(self, mutating_form):
        """Called after every request: detect changes, restore the pristine state.

        Returns (changed, outside_diff list, touched_outside list)."""
        touched = []
        out_diff = []
        if self.store is not None:
            ops = self.store.log
            self.store.log = []
            mut = False
            suspicious = False
            mpaths = []
            for op in ops:
                alt = _resolve(op.base, op.rel)
                for p in (op.path, op.path2, alt):
                    if p is None:
                        continue
                    if not inside(p):
                        touched.append("%s %s" % (op.kind, p))
                        suspicious = True
                    elif "//" in p or "\0" in p:
                        suspicious = True
                if op.mutating:
                    mut = True
                    mpaths.extend(p for p in (op.path, op.path2) if p is not None)
                    if op.kind in ("delete_tree", "copy"):
                        suspicious = True
            if not mut:
                return False, out_diff, touched
            tops = None if suspicious else self._tops_of(mpaths)
            if tops is not None and self._restore_tops(tops):
                if VERIFY_RESTORE and self._walk_store(False) != self.pristine:
                    raise HarnessError("C31: targeted restore of %r incomplete" % (tops,))
                return True, out_diff, touched
            # anything unusual: judged by effect - the outside region is re-read from the real store
            now = self.outside_snapshot()
            if now != self.pristine_outside:
                out_diff = self.outside_diff(now)
                self._write_snapshot(self.pristine, only_inside=False)
            else:
                self._write_snapshot(self.pristine_inside, only_inside=True)
            return True, out_diff, touched
        if not mutating_form:
            return False, out_diff, touched
        fp = self.fingerprint()
        if fp == self.base_fp:
            return False, out_diff, touched
        changed = set(fp) ^ set(self.base_fp)
        paths = {x[0][len(self.R):] for x in changed}
        tops = self._tops_of(paths)
        if tops is not None:
            self._restore_tops(tops)
            if VERIFY_RESTORE and self.snapshot() != self.pristine:
                raise HarnessError("C31: targeted restore of %r incomplete" % (tops,))
        elif all(inside(p) for p in paths):
            self._write_snapshot(self.pristine_inside, only_inside=True)
        else:
            out_diff = self.outside_diff()
            self._write_snapshot(self.pristine, only_inside=False)
        self.base_fp = self.fingerprint()
        return True, out_diff, touched

    def final_check(self):
        """End of a work item: the whole world must be byte-identical to its creation state."""
        now = self.snapshot()
        if now == self.pristine:
            return []
        diff = self.outside_diff(now)
        inside_changed = any(now.get(p, "absent") != self.pristine.get(p, "absent")
                             for p in set(now) | set(self.pristine) if inside(p))
        self._write_snapshot(self.pristine, only_inside=False)
        if self.kind == "local":
            self.base_fp = self.fingerprint()
        if inside_changed and not diff:
            raise HarnessError("C31: the inside of the served directory was changed by a request "
                               "classified as read-only and not restored")
        return diff

    # -- requests --------------------------------------------------------------------------
    def canon(self, b):
        for pre in self.prefixes:
            b = b.replace(pre, b"<R>")
        b = _ID_RE.sub(rb"\1-N", b)
        return _TMP_RE.sub(b".tmpN", _HEX_RE.sub(b"0xN", b))

    def request(self, root, verb, args, body=None):
        """Send one raw request; returns the canonicalised outcome tuple."""
        self.medium._root_client_path = root
        self.medium.disconnect()
        self.medium._current_request = None
        try:
            resp, handler = self.client._call_and_read_response(
                verb, args, body=body, expect_response_body=True)
            try:
                data = handler.read_body_bytes()
            except Exception:  # noqa  streamed or absent body
                try:
                    data = b"".join(handler.read_streamed_body())
                except Exception as e:  # noqa
                    data = b"<unreadable body: %s>" % type(e).__name__.encode()
            out = ("ok", tuple(resp), data)
        except terrors.ErrorFromSmartServer as e:
            out = ("err", tuple(e.error_tuple), b"")
        except terrors.UnknownSmartMethod:
            out = ("err", (b"UnknownSmartMethod",), b"")
        except (terrors.SmartProtocolError, terrors.ConnectionError, berrors.BzrError, ConnectionError) as e:
            # e.g. the server dies while serialising an error tuple that contains None: no bytes leak
            out = ("err", (b"client:" + type(e).__name__.encode(),), b"")
        args = tuple(self.canon(x) if isinstance(x, bytes) else repr(x).encode() for x in out[1])
        if out[0] == "ok" and args[:1] == (b"names",):
            args = args[:1] + tuple(sorted(args[1:]))      # directory listings are sets
        return (out[0], args, self.canon(out[2]))


def _resolve(base, rel):
    """Where the memory transport really goes for (base, relpath): an unescaped leading '/' is absolute."""
    if base is None or rel is None:
        return None
    from dromedary import urlutils
    try:
        u = urlutils.unescape(rel)
    except Exception:  # noqa  (non-ascii relpath: refused by the transport itself)
        return None
    if u.startswith("/"):
        return u
    bp = urlutils.unescape(base.split("://", 1)[1])
    return bp.rstrip("/") + "/" + u


def _d(v):
    if v == "absent":
        return "absent"
    if v is None:
        return "dir"
    return "file:%d bytes:%r" % (len(v), v[:24])


def blob(outcome):
    return b"\0".join(outcome[1]) + b"\0" + outcome[2]


def leaked(outcome):
    b = blob(outcome)
    return [k for k, c in list(CANARIES.items()) + list(SIBLING_CANARIES.items()) if c in b]
