"""Reference model for C17: trees as dicts ``id -> Entry(parent, name, kind, content, exec)``
(parent = id of the containing directory, None for the tree root), edits as pure functions
on such dicts, and the statement's laws as pure functions (expected merge result).

Nothing here looks at breezy; the model is what the property statement says.

New / changed file contents are unique per entry (no two files share a line), so that content
based rename detection on git trees has nothing to latch on to - with deliberate exceptions:
every file->symlink edit uses the same target "t" (two unrelated entries with identical content),
and the edits split(f) (delete f, add two files with f's exact bytes and mode) and copy(f) (add one
exact copy next to f; rename + copy arises as the two-edit script ren(f), copy(f)).
"""
import itertools
from collections import namedtuple

Entry = namedtuple("Entry", "parent name kind content exec")


def F(parent, name, content, exec=False):
    return Entry(parent, name, "file", content, exec)


def D(parent, name):
    return Entry(parent, name, "directory", None, False)


def L(parent, name, target):
    return Entry(parent, name, "symlink", target, False)


BASES = [
    # 0: file, executable file, directory with a file, symlink
    {b"a-id": F(None, "a", b"a\n"), b"x-id": F(None, "x", b"x\n", True), b"d-id": D(None, "d"),
     b"b-id": F(b"d-id", "b", b"b\n"), b"l-id": L(None, "l", "a")},
    # 1: nested directories
    {b"d-id": D(None, "d"), b"e-id": D(b"d-id", "e"), b"c-id": F(b"e-id", "c", b"c\n"),
     b"b-id": F(b"d-id", "b", b"b\n"), b"a-id": F(None, "a", b"a\n")},
    # 2: two sibling directories
    {b"d-id": D(None, "d"), b"b-id": F(b"d-id", "b", b"b\n"), b"g-id": D(None, "g"),
     b"h-id": F(b"g-id", "h", b"h\n", True), b"a-id": F(None, "a", b"1\n2\n3\n")},
    # 3: flat
    {b"a-id": F(None, "a", b"a\n"), b"b-id": F(None, "b", b"b\n", True), b"c-id": L(None, "c", "a")},
]


def path_of(tree, fid, _seen=None):
    """Path of an entry or None when the tree is ill-formed at it (missing / non-dir parent, loop)."""
    parts = []
    seen = set()
    cur = fid
    while cur is not None:
        if cur in seen or cur not in tree:
            return None
        seen.add(cur)
        e = tree[cur]
        parts.append(e.name)
        cur = e.parent
        if cur is not None and (cur not in tree or tree[cur].kind != "directory"):
            return None
    return "/".join(reversed(parts))


def wellformed(tree):
    seen = set()
    for fid in tree:
        p = path_of(tree, fid)
        if p is None or p in seen:
            return False
        seen.add(p)
    return True


def render(tree, with_ids=True):
    """Sorted [(path, kind, content, exec[, id])]."""
    out = []
    for fid, e in tree.items():
        row = (path_of(tree, fid), e.kind, e.content, bool(e.exec) if e.kind == "file" else False)
        if with_ids:
            row += (fid,)
        out.append(row)
    return sorted(out, key=lambda r: r[0])


def canon(tree):
    return tuple(sorted(tree.items()))


def subtree(tree, fid):
    out = {fid}
    changed = True
    while changed:
        changed = False
        for k, e in tree.items():
            if e.parent in out and k not in out:
                out.add(k)
                changed = True
    return out


def _free_name(tree, parent, name):
    return all(not (e.parent == parent and e.name == name) for e in tree.values())


def edits(tree):
    """All single edits applicable to `tree`: yields (label, kind_class, new_tree)."""
    dirs = [None] + sorted(k for k, e in tree.items() if e.kind == "directory")
    for fid in sorted(tree):
        e = tree[fid]
        tag = {"file": "file", "directory": "dir", "symlink": "link"}[e.kind]

        def put(**kw):
            t = dict(tree)
            t[fid] = e._replace(**kw)
            return t
        nm = fid.decode()
        if e.kind == "file":
            yield ("mod(%s)" % nm, "mod", put(content=e.content + b"more " + fid + b"\n"))
            yield ("chmod(%s)" % nm, "chmod", put(exec=not e.exec))
            yield ("to_link(%s)" % nm, "file->symlink", put(kind="symlink", content="t", exec=False))
            t = put(kind="directory", content=None, exec=False)
            t[fid + b"-y"] = F(fid, "y", b"y of " + fid + b"\n")
            yield ("to_dir(%s)" % nm, "file->dir", t)
        if e.kind == "file" and not fid.endswith((b"-c1", b"-c2", b"-cp")):
            # exact copies (same bytes, same mode) - what content based rename / copy detection
            # on git trees reports as one rename plus copies
            if _free_name(tree, e.parent, e.name + "_c1") and _free_name(tree, e.parent, e.name + "_c2"):
                t = {k: v for k, v in tree.items() if k != fid}
                t[fid + b"-c1"] = e._replace(name=e.name + "_c1")
                t[fid + b"-c2"] = e._replace(name=e.name + "_c2")
                yield ("split(%s)" % nm, "split-file", t)
            if _free_name(tree, e.parent, e.name + "_cp"):
                t = dict(tree)
                t[fid + b"-cp"] = e._replace(name=e.name + "_cp")
                yield ("copy(%s)" % nm, "copy-file", t)
        if e.kind == "symlink":
            yield ("retarget(%s)" % nm, "retarget", put(content=e.content + "2"))
            yield ("to_file(%s)" % nm, "symlink->file", put(kind="file", content=b"was link " + fid + b"\n"))
        if e.kind == "directory":
            t = {k: v for k, v in tree.items() if k not in subtree(tree, fid) or k == fid}
            t[fid] = e._replace(kind="file", content=b"was dir " + fid + b"\n")
            yield ("to_file(%s)" % nm, "dir->file", t)
        if _free_name(tree, e.parent, e.name + "2"):
            yield ("ren(%s)" % nm, "ren-" + tag, put(name=e.name + "2"))
        for d in dirs:
            if d != e.parent and d not in subtree(tree, fid) and _free_name(tree, d, e.name):
                yield ("mv(%s,%s)" % (nm, d.decode() if d else "/"), "mv-" + tag, put(parent=d))
        gone = subtree(tree, fid)
        yield ("del(%s)" % nm, "del-" + tag, {k: v for k, v in tree.items() if k not in gone})
    for d in dirs:
        if b"n-id" not in tree and _free_name(tree, d, "n"):
            t = dict(tree)
            t[b"n-id"] = F(d, "n", b"n\n")
            yield ("add(n,%s)" % (d.decode() if d else "/"), "add-file", t)
    if b"m-id" not in tree and _free_name(tree, None, "m"):
        t = dict(tree)
        t[b"m-id"] = D(None, "m")
        t[b"k-id"] = F(b"m-id", "k", b"k\n", True)
        yield ("add_dir(m)", "add-dir", t)


def variants(base, max_len):
    """Distinct well-formed trees reachable from base by <= max_len edits.
    Returns list of (tree, script labels, kind classes) with the shortest script first; index 0 is base."""
    out = [(base, (), ())]
    seen = {canon(base)}
    frontier = [(base, (), ())]
    for _ in range(max_len):
        nxt = []
        for tree, labels, kinds in frontier:
            for label, kind, t in edits(tree):
                if not wellformed(t):
                    continue
                c = canon(t)
                if c in seen:
                    continue
                seen.add(c)
                item = (t, labels + (label,), kinds + (kind,))
                out.append(item)
                nxt.append(item)
        frontier = nxt
    return out


def touched(base, tree):
    """Ids whose entry differs between base and tree (added, removed or altered)."""
    return {k for k in set(base) | set(tree) if base.get(k) != tree.get(k)}


def touched_paths(base, tree):
    """Path reading (for trees without file ids): every old and new path of a touched entry and
    of everything below a touched directory."""
    out = set()
    ids = touched(base, tree)
    for t in (base, tree):
        for k in ids:
            if k in t:
                for s in subtree(t, k):
                    out.add(path_of(t, s))
    return out


def paths_disjoint(p1, p2):
    for a in p1:
        for b in p2:
            if a == b or a.startswith(b + "/") or b.startswith(a + "/"):
                return False
    return True


def union(base, this, other):
    """The statement's 'union of both sides' changes' for disjoint change sets, or None when the
    union is not a tree (dangling parent, duplicate name, loop)."""
    t_this, t_other = touched(base, this), touched(base, other)
    if t_this & t_other:
        return None
    out = {}
    for k in set(base) | set(this) | set(other):
        src = this if k in t_this else other if k in t_other else base
        if k in src:
            out[k] = src[k]
    return out if wellformed(out) else None


def to_spec(tree):
    """world-style spec {path: E(fid, kind, content, exec)} for commit_spec."""
    from mc import world
    spec = {}
    for fid, e in tree.items():
        spec[path_of(tree, fid)] = world.E(fid, e.kind, e.content, e.exec)
    return spec


def pairs(n):
    return itertools.combinations(range(n), 2)
