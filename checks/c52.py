"""C52 - Format upgrades and reconfigurations preserve history and trees.

(a) Upgrades: every history DAG with <= 3 (quick) / 4 (thorough) revisions (mc.gen.dags:
ordered parents, merges, unreachable side revisions included), tags (a normal tag, a tip tag,
a tag on an absent revision; none where the branch format has no tags), built with real
commits in each source format {pack-0.92, rich-root-pack, 1.9, 1.14, knit, dirstate-tags;
thorough adds 1.9-rich-root, 1.14-rich-root, 1.6, dirstate} in every layout {standalone tree
with pending changes (modified, added, renamed file), branch without tree, heavyweight
checkout with pending changes, lightweight checkout with pending changes, shared repository
with two dependent branches}, on /dev/shm, upgraded with breezy.upgrade.upgrade() to 2a; and 2a
sources upgraded to development-colo (ConvertMetaToColo).
(b) Reconfigurations: every path of 2 (quick) / 3 (thorough) transitions over {to_branch,
to_tree, to_checkout, to_lightweight_checkout, to_use_shared, to_standalone} (every shorter
path is a prefix) from a tree with its own repository / a tree in a shared repository, with
and without pending changes (2a; thorough adds 1.14), a merge history with tags, a master
branch to bind / refer to; each also with extra revisions in the local repository outside the
tip's ancestry (and absent from the master): one referenced only by a tag, a dead head, and -
with pending changes - one that is an uncommitted pending merge of the tree.
Oracle after every upgrade / transition: branch tip, the testament of every revision (strict
testaments where the root is versioned on both sides), tags, the working tree's versioned
entries with file ids, its files on disk, iter_changes against the basis and the parent ids
are what they were; every revision that was in a repository reachable from the location is still in one
(equal testament), no tag that resolved starts to dangle, no pending merge becomes a ghost;
a refused transition leaves all of that and the layout unchanged; an
accepted transition yields the requested layout; upgrade() reports no exception and the
location no longer needs conversion.
"""
import itertools
import os
import shutil

from mc import boot, gen, par
from mc import world as mw
from mc import wt as mwt
from mc.evidence import HarnessError

ID = "C52"
LEVEL = "model_checking"
TECHNIQUE = "explicit-state search over layout transition paths + exhaustive small histories x formats x layouts through the real upgrade/reconfigure code"

FORMATS_Q = ("pack-0.92", "rich-root-pack", "1.9", "1.14", "knit", "dirstate-tags")
FORMATS_T = FORMATS_Q + ("1.9-rich-root", "1.14-rich-root", "1.6", "dirstate")
RICH_ROOT = ("rich-root-pack", "1.9-rich-root", "1.14-rich-root", "2a")
NO_TAGS = ("knit", "dirstate")
LAYOUTS = ("tree", "branch", "checkout", "lightweight", "shared-repo")
OPS = ("branch", "tree", "checkout", "lightweight", "use-shared", "standalone")
SKIP = (".bzr", "backup.bzr.~1~")


def _where(e):
    import traceback
    tb = traceback.extract_tb(e.__traceback__)
    for fr in reversed(tb):
        if fr.filename.startswith(boot.REPO):
            return "%s:%s" % (os.path.basename(fr.filename), fr.name)
    return "?"


# ---- building -------------------------------------------------------------------

def spec_for(dag, i):
    """Tree of revision i: `a` (renamed to `b` from revision 2 on) carries the revision number,
    every ancestor contributes a file below d/."""
    anc = sorted(gen.dag_ancestors(dag, i))
    spec = {"d": mw.D(b"d-id")}
    spec["b" if i >= 2 else "a"] = mw.F(b"a-id", b"content of revision %d\n" % i, i % 2 == 1)
    for j in anc:
        spec["d/n%d" % j] = mw.F(b"n%d-id" % j, b"added in %d\n" % j)
    return spec


def build_history(branch, dag):
    for i, parents in enumerate(dag):
        mw.commit_spec(branch, gen.revid(i), [gen.revid(p) for p in parents], spec_for(dag, i),
                       timestamp=1_000_000_000.0 + i)
    tip = gen.revid(len(dag) - 1)
    if branch.last_revision() != tip:
        raise HarnessError("tip is %r" % branch.last_revision())
    return tip


def set_tags(branch, fmt, tip):
    if fmt in NO_TAGS:
        return {}
    tags = {"v0": gen.revid(0), "tip tag": tip, "absent": b"revision-not-present"}
    with branch.lock_write():
        for k, v in tags.items():
            branch.tags.set_tag(k, v)
    return tags


def make_pending(tree):
    """Uncommitted changes: a modified file, an added file, a renamed file."""
    base = tree.basedir
    with tree.lock_write():
        name = "b" if tree.is_versioned("b") else "a"
        with open(os.path.join(base, name), "ab") as f:
            f.write(b"uncommitted line\n")
        with open(os.path.join(base, "new file"), "wb") as f:
            f.write(b"uncommitted file\n")
        tree.add(["new file"], ids=[b"new-id"])
        src = sorted(p for p, _ in tree.iter_entries_by_dir() if p.startswith("d/n"))[-1]
        tree.rename_one(src, "d/renamed")


def fmt_obj(fmt):
    from breezy import controldir
    return controldir.format_registry.make_controldir(fmt)


def new_branch(path, fmt):
    os.makedirs(path)
    return mw.make_branch(path, fmt)


# ---- observing --------------------------------------------------------------------

def observe(path, revids, strict, also=()):
    """Everything the property says is preserved, read through fresh objects."""
    from breezy.controldir import ControlDir
    cd = ControlDir.open(path)
    br = cd.open_branch()
    repo = br.repository
    o = {"tip": br.last_revision()}
    with repo.lock_read():
        o["testaments"] = {r: mw.testament(repo, r, strict=False) for r in revids}
        if strict:
            o["strict_testaments"] = {r: mw.testament(repo, r, strict=True) for r in revids}
    with br.lock_read():
        o["tags"] = dict(br.tags.get_tag_dict()) if br.supports_tags() else {}
    o["tree"] = observe_tree(cd, path)
    # every revision in a repository reachable from the location: the branch's repository, the
    # location's own / containing one, and the shared one above it
    revs = {}
    for r in reachable_repositories(cd, br, also):
        with r.lock_read():
            for rid in r.all_revision_ids():
                if rid not in revs:
                    revs[rid] = mw.testament(r, rid, strict=False)
    o["repo_revs"] = revs
    with repo.lock_read():
        present = repo.has_revisions(list(o["tags"].values()))
        o["dangling_tags"] = sorted(t for t, rid in o["tags"].items() if rid not in present)
        parents = o["tree"]["parents"] if o["tree"] else []
        have = repo.has_revisions(parents)
        o["ghost_parents"] = [p for p in parents if p not in have]
    return o


def reachable_repositories(cd, br, also=()):
    """The branch's repository, the location's own / containing one, the shared one above it and
    those of the given related locations (the master the location is bound / refers to)."""
    from breezy import errors
    from breezy.controldir import ControlDir
    out = [br.repository]
    seen = {br.repository.user_url}
    finders = [cd.find_repository,
               lambda: ControlDir.open_containing_from_transport(cd.root_transport.clone(".."))[0].find_repository()]
    finders += [(lambda p=p: ControlDir.open(p).find_repository()) for p in also]
    for find in finders:
        try:
            r = find()
        except (errors.NoRepositoryPresent, errors.NotBranchError):
            continue
        if r.user_url not in seen:
            seen.add(r.user_url)
            out.append(r)
    return out


EXTRA_CLASS = {b"s-merge": "pending-merge-revision", b"s-tag": "tagged-side-revision", b"s-dead": "dead-head"}


def lost_diff(before, after):
    """Oracle additions: nothing that was reachable is gone, no new dangling tag / ghost parent.
    Returns the list of everything that is wrong."""
    out = []
    for rid in sorted(before["repo_revs"]):
        if after["repo_revs"].get(rid) != before["repo_revs"][rid]:
            what = "revision-lost:%s" % EXTRA_CLASS.get(rid, "history")
            if what not in out:
                out.append(what)
    if [t for t in after["dangling_tags"] if t not in before["dangling_tags"] and t in before["tags"]]:
        out.append("tag-left-dangling")
    if [p for p in after["ghost_parents"] if p not in before["ghost_parents"]]:
        out.append("pending-merge-became-ghost")
    return out


def observe_tree(cd, path):
    from breezy import errors
    try:
        tree = cd.open_workingtree(recommend_upgrade=False)
    except errors.NoWorkingTree:
        return None
    return {"entries": mwt.wt_dump(tree, with_ids=True),
            "changes": mwt.changes(tree),
            "parents": list(tree.get_parent_ids()),
            "disk": sorted(mwt.dir_snapshot(path, skip=SKIP).items())}


def first_diff(before, after):
    """Name of the first preserved item that differs, or None."""
    for k in ("tip", "tags", "testaments", "strict_testaments"):
        if before.get(k) != after.get(k):
            return k
    bt, at = before["tree"], after["tree"]
    if bt is not None and at is not None:
        for k in ("entries", "disk", "changes", "parents"):
            if bt[k] != at[k]:
                return "tree-" + k
    return None


# ---- (a) upgrades -------------------------------------------------------------------

def upgrade_case(fmt, dag, layout, acc, to="2a"):
    from breezy.controldir import ControlDir
    from breezy.upgrade import upgrade
    base = boot.scratch("c52u")
    strict = fmt in RICH_ROOT
    revids = [gen.revid(i) for i in range(len(dag))]
    detail = {"format": fmt, "to": to, "dag": [list(p) for p in dag], "layout": layout}
    try:
        locs = []       # (path, revids whose testaments must survive)
        if layout in ("tree", "branch"):
            loc = os.path.join(base, "loc")
            b = new_branch(loc, fmt)
            tip = build_history(b, dag)
            set_tags(b, fmt, tip)
            if layout == "tree":
                make_pending(b.controldir.create_workingtree())
            locs.append((loc, revids))
            target = loc
        elif layout in ("checkout", "lightweight"):
            master = os.path.join(base, "master")
            b = new_branch(master, fmt)
            tip = build_history(b, dag)
            set_tags(b, fmt, tip)
            loc = os.path.join(base, "loc")
            make_pending(b.create_checkout(loc, lightweight=(layout == "lightweight")))
            locs.append((loc, revids if layout == "lightweight" else
                         [gen.revid(i) for i in sorted(gen.dag_ancestors(dag, len(dag) - 1))]))
            target = loc
        else:
            root = os.path.join(base, "repo")
            os.makedirs(root)
            f = fmt_obj(fmt)
            cd = f.initialize(root)
            cd.create_repository(shared=True)
            b1 = new_branch(os.path.join(root, "b1"), fmt)
            tip = build_history(b1, dag)
            set_tags(b1, fmt, tip)
            b2 = new_branch(os.path.join(root, "b2"), fmt)
            with b2.lock_write():
                b2.generate_revision_history(gen.revid(0))
                if fmt not in NO_TAGS:
                    b2.tags.set_tag("only on b2", gen.revid(0))
            locs.append((os.path.join(root, "b1"), revids))
            locs.append((os.path.join(root, "b2"), revids))
            target = root
        before = [observe(p, r, strict) for p, r in locs]
        acc.n += 1
        if len(dag) >= 2:
            acc.nt((fmt, dag, layout))
        try:
            excs = upgrade(target, fmt_obj(to))
        except Exception as e:  # noqa
            acc.violation("upgrade:%s:%s:%s" % (layout, type(e).__name__, _where(e)), dict(detail, error=str(e)[:200]))
            return
        if excs:
            e = excs[0]
            acc.violation("upgrade:%s:reported-%s:%s" % (layout, type(e).__name__, _where(e)),
                          dict(detail, error=str(e)[:200]))
            return
        for (p, r), bef in zip(locs, before):
            try:
                aft = observe(p, r, strict)
            except Exception as e:  # noqa
                acc.violation("upgrade:%s:location-unreadable-afterwards:%s:%s" % (layout, type(e).__name__, _where(e)),
                              dict(detail, location=os.path.basename(p), error=str(e)[:200]))
                return
            d = first_diff(bef, aft)
            if d:
                acc.violation("upgrade:%s:%s-not-preserved" % (layout, d),
                              dict(detail, location=os.path.basename(p), before=_brief(bef, d), after=_brief(aft, d)))
                return
            if bef["tree"] is not None and aft["tree"] is None:
                acc.violation("upgrade:%s:working-tree-gone" % layout, detail)
                return
        # the upgraded thing is in the target format now
        cd = ControlDir.open(target)
        if cd.needs_format_conversion(fmt_obj(to)):
            acc.violation("upgrade:%s:still-needs-conversion" % layout, detail)
        acc.outcomes.add((layout, "upgraded"))
    finally:
        shutil.rmtree(base, ignore_errors=True)


def _brief(obs, key):
    if key.startswith("tree-"):
        v = obs["tree"][key[5:]] if obs["tree"] else None
    else:
        v = obs.get(key)
    return repr(v)[:600]


def _quiet():
    import logging
    logging.getLogger("brz").setLevel(logging.ERROR)


def _work_upgrade(chunk):
    _quiet()
    acc = par.Acc()
    for i, fmt, dag, layout in chunk:
        if fmt == "2a":
            upgrade_case(fmt, dag, layout, acc, to="development-colo")
        else:
            upgrade_case(fmt, dag, layout, acc)
        if i < 2:
            acc.sample({"upgrade": fmt, "dag": [list(p) for p in dag], "layout": layout})
    return acc


# ---- (b) reconfigurations ------------------------------------------------------------

RDAG = ((), (0,), (0,), (1, 2))       # a merge history


def layout_of(path):
    """(has tree, branch is local, bound location or None, has own repository)"""
    from breezy import errors
    from breezy.controldir import ControlDir
    cd = ControlDir.open(path)
    br = cd.open_branch()
    local = br.user_url == cd.user_url
    try:
        cd.open_repository()
        own = True
    except errors.NoRepositoryPresent:
        own = False
    try:
        cd.open_workingtree(recommend_upgrade=False)
        tree = True
    except errors.NoWorkingTree:
        tree = False
    bound = br.get_bound_location() if local else None
    return (tree, local, bound is not None, own)


def requested_layout_reached(op, lay):
    tree, local, bound, own = lay
    if op == "branch":
        return (not tree) and local and not bound
    if op == "tree":
        return tree and local and not bound
    if op == "checkout":
        return tree and local and bound
    if op == "lightweight":
        return tree and not local
    if op == "use-shared":
        return not own
    if op == "standalone":
        return own
    raise ValueError(op)


def apply_op(op, path, master):
    from breezy.controldir import ControlDir
    from breezy.reconfigure import Reconfigure
    cd = ControlDir.open(path)
    if op == "branch":
        r = Reconfigure.to_branch(cd)
    elif op == "tree":
        r = Reconfigure.to_tree(cd)
    elif op == "checkout":
        r = Reconfigure.to_checkout(cd, master)
    elif op == "lightweight":
        r = Reconfigure.to_lightweight_checkout(cd, master)
    elif op == "use-shared":
        r = Reconfigure.to_use_shared(cd)
    else:
        r = Reconfigure.to_standalone(cd)
    r.apply()


def reconfigure_case(fmt, start, pending, path_ops, acc, extras=False):
    from breezy import errors
    base = boot.scratch("c52r")
    detail = {"format": fmt, "start": start, "pending_changes": pending, "path": list(path_ops),
              "extra_revisions": extras}
    try:
        shared = os.path.join(base, "shared")
        os.makedirs(shared)
        fmt_obj(fmt).initialize(shared).create_repository(shared=True)
        loc = os.path.join(shared, "loc")
        if start == "own-repo":
            os.makedirs(loc)
            cd = fmt_obj(fmt).initialize(loc)
            cd.create_repository()
            b = cd.create_branch()
        else:
            b = new_branch(loc, fmt)          # uses the shared repository
        tip = build_history(b, RDAG)
        set_tags(b, fmt, tip)
        master = os.path.join(base, "master")
        mb = b.controldir.sprout(master, revision_id=tip, create_tree_if_local=False).open_branch()
        set_tags(mb, fmt, tip)
        # tag only known to the location (must survive being merged into other branches)
        with b.lock_write():
            b.tags.set_tag("local only", gen.revid(1))
        if extras:
            # revisions of the local repository outside the ancestry of the tip (the master has none of
            # them): one referenced only by a tag, one referenced by nothing, one that becomes a
            # pending merge of the tree
            for rid, parent in ((b"s-tag", 0), (b"s-dead", 2), (b"s-merge", 1)):
                spec = dict(spec_for(RDAG, parent))
                spec["d/" + rid.decode()] = mw.F(rid + b"-id", b"side revision\n")
                mw.commit_spec(b, rid, [gen.revid(parent)], spec, timestamp=1_000_000_100.0)
            with b.lock_write():
                b.generate_revision_history(tip)
                b.tags.set_tag("side", b"s-tag")
        tree = b.controldir.create_workingtree()
        if pending:
            make_pending(tree)
            if extras:
                with tree.lock_write():
                    tree.set_parent_ids([tip, b"s-merge"])
        revids = [gen.revid(i) for i in range(len(RDAG))]
        strict = True
        first = observe(loc, revids, strict, also=[master])
        lay = layout_of(loc)
        acc.states.add((lay, pending))
        for k, op in enumerate(path_ops):
            before = observe(loc, revids, strict, also=[master])
            acc.count("transitions_run")
            try:
                apply_op(op, loc, master)
                outcome = "ok"
            except errors.BzrError as e:
                outcome = type(e).__name__
            except Exception as e:  # noqa
                acc.violation("reconfigure:%s:%s:%s" % (op, type(e).__name__, _where(e)),
                              dict(detail, failing_step=k, error=str(e)[:200], layout_before=list(lay)))
                return
            try:
                after = observe(loc, revids, strict, also=[master])
                nlay = layout_of(loc)
            except Exception as e:  # noqa
                acc.violation("reconfigure:%s:location-unreadable-afterwards:%s" % (op, type(e).__name__),
                              dict(detail, failing_step=k, outcome=outcome, error=str(e)[:200], layout_before=list(lay)))
                return
            acc.trans.add((lay, pending, op, outcome))
            acc.outcomes.add((op, outcome))
            if outcome != "ok":
                d = first_diff(before, after) or (lost_diff(before, after) or [None])[0]
                if d is None and (before["tree"] is None) != (after["tree"] is None):
                    d = "tree-presence"
                if d is None and nlay != lay:
                    d = "layout"
                if d:
                    acc.violation("reconfigure:%s:refused-%s-but-%s-changed" % (op, outcome, d),
                                  dict(detail, failing_step=k, layout_before=list(lay), layout_after=list(nlay),
                                       before=_brief(before, d) if d in before or d.startswith("tree-") and d != "tree-presence" else None,
                                       after=_brief(after, d) if d in after or d.startswith("tree-") and d != "tree-presence" else None))
                    return
                continue
            d = first_diff(first, after)
            if d is None and after["tree"] is None and before["tree"] is not None and before["tree"]["changes"]:
                d = "pending-changes(tree-destroyed)"
            if d is None:
                lost = lost_diff(first, after)
                for what in lost[1:]:
                    acc.violation("reconfigure:%s:%s" % (op, what),
                                  dict(detail, failing_step=k, layout_before=list(lay), layout_after=list(nlay)))
                if lost:
                    d = "(%s)" % lost[0]
            if d:
                sig = ("reconfigure:%s:%s" % (op, d[1:-1])) if d.startswith("(") else \
                    ("reconfigure:%s:%s-not-preserved" % (op, d))
                acc.violation(sig,
                              dict(detail, failing_step=k, layout_before=list(lay), layout_after=list(nlay),
                                   before=_brief(first, d) if "(" not in d else None,
                                   after=_brief(after, d) if "(" not in d else None))
                return
            if not requested_layout_reached(op, nlay):
                acc.violation("reconfigure:%s:requested-layout-not-reached" % op,
                              dict(detail, failing_step=k, layout_before=list(lay), layout_after=list(nlay)))
                return
            lay = nlay
            acc.states.add((lay, pending))
    finally:
        shutil.rmtree(base, ignore_errors=True)


class Acc(par.Acc):
    def __init__(self):
        super().__init__()
        self.states = set()
        self.trans = set()

    def merge(self, other):
        super().merge(other)
        self.states |= getattr(other, "states", set())
        self.trans |= getattr(other, "trans", set())
        return self


def _work_reconf(chunk):
    _quiet()
    acc = Acc()
    for i, fmt, start, pending, extras, ops in chunk:
        acc.n += 1
        if len(set(ops)) >= 2:
            acc.nt((fmt, start, pending, extras, ops))
        reconfigure_case(fmt, start, pending, ops, acc, extras=extras)
        if i < 2:
            acc.sample({"reconfigure": list(ops), "format": fmt, "start": start, "pending_changes": pending,
                        "extra_revisions": extras})
    return acc


def run(ctx):
    n = ctx.q(3, 4)
    formats = ctx.q(FORMATS_Q, FORMATS_T)
    dags = list(gen.dags(n, min_nodes=1))
    up_items = [(i, fmt, dag, layout) for i, (fmt, dag, layout) in
                enumerate(itertools.product(formats + ("2a",), dags, LAYOUTS))]
    acc_u = par.merge(par.pmap(_work_upgrade, up_items, seed=ctx.seed, chunks_per_job=8))
    L = ctx.q(2, 3)
    rformats = ctx.q(("2a",), ("2a", "1.14"))
    re_items = [(i, fmt, start, pending, extras, ops) for i, (fmt, start, pending, extras, ops) in
                enumerate(itertools.product(rformats, ("own-repo", "in-shared-repo"), (True, False), (False, True),
                                            itertools.product(OPS, repeat=L)))]
    acc_r = Acc()
    for a in par.pmap(_work_reconf, re_items, seed=ctx.seed, chunks_per_job=8):
        acc_r.merge(a)
    best = {}
    for sig, d in acc_u.violations + acc_r.violations:
        key = (len(d.get("dag", [])), len(d.get("path", [])), d.get("failing_step", 0), repr(sorted(d.items())))
        if sig not in best or key < best[sig][0]:
            best[sig] = (key, d)
    for sig in sorted(best):
        ctx.violation(sig, best[sig][1])
    ctx.assumptions.append("testaments: the plain Testament for sources without versioned root (the root entry is added by the "
                           "conversion to a rich-root format), additionally StrictTestament3 for rich-root sources and all reconfigurations")
    ctx.assumptions.append("the backup.bzr.~1~ directory left by upgrade is not part of the tree content; reconfigure transitions are "
                           "given the master branch as bind / reference location")
    return {
        "evaluations": acc_u.n + acc_r.n,
        "upgrades": acc_u.n,
        "reconfigure_paths": acc_r.n,
        "states": len(acc_r.states),
        "transitions": len(acc_r.trans),
        "traces_validated_against_impl": acc_u.n + acc_r.counters.get("transitions_run", 0),
        "reconfigure_transitions_run": acc_r.counters.get("transitions_run", 0),
        "distinct_nontrivial": len(acc_u.nontrivial) + len(acc_r.nontrivial),
        "distinct_outcomes": len(acc_u.outcomes) + len(acc_r.outcomes),
        "reconfigure_outcomes": sorted("%s:%s" % o for o in acc_r.outcomes),
        "rule": "upgrades: history with >= 2 revisions; reconfigurations: path with at least two different transitions",
        "max_revisions": n,
        "dags": len(dags),
        "formats": list(formats),
        "layouts": list(LAYOUTS),
        "path_length": L,
        "samples": acc_u.samples[:2] + acc_r.samples[:2],
        "exhaustive": True,
    }


def replay(ctx, data):
    d = data["first"]
    _quiet()
    if "path" in d:
        acc = Acc()
        reconfigure_case(d["format"], d["start"], d["pending_changes"], tuple(d["path"]), acc,
                         extras=d.get("extra_revisions", False))
    else:
        acc = par.Acc()
        upgrade_case(d["format"], tuple(tuple(p) for p in d["dag"]), d["layout"], acc, to=d.get("to", "2a"))
    return not any(sig == data["signature"] for sig, _ in acc.violations)
