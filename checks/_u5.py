"""Private helpers shared by the checks c18, c39, c45, c47, c50."""
import traceback


def size_of(x):
    """A rough size for 'report the smallest failing case': total length of nested containers."""
    if isinstance(x, (bytes, str)):
        return len(x) + 1
    if isinstance(x, dict):
        return sum(size_of(v) for v in x.values()) + 1
    if isinstance(x, (list, tuple, set, frozenset)):
        return sum(size_of(v) for v in x) + 1
    return 1


def report_smallest(ctx, accs, key="input"):
    """Report one violation per signature: the one with the smallest detail[key]."""
    best = {}
    count = {}
    for a in accs:
        for sig, d in a.violations:
            count[sig] = count.get(sig, 0) + 1
            k = (d.get("rank", []), size_of(d.get(key, d)), repr(d.get(key, d)))
            if sig not in best or k < best[sig][0]:
                best[sig] = (k, d)
    for sig in sorted(best):
        d = dict(best[sig][1])
        total = sum(a.counters.get("sig:" + sig, 0) for a in accs)
        d["occurrences"] = total or count[sig]
        ctx.violation(sig, d)


def innermost_repo_frame(exc, repo):
    """'<file>:<function>' of the innermost traceback frame under the repo (or 'native')."""
    root = repo.rstrip("/") + "/"
    seen = 0
    while exc is not None and seen < 5:
        where = None
        for fs in traceback.extract_tb(exc.__traceback__):
            if fs.filename.startswith(root):
                where = "%s:%s" % (fs.filename[len(root):], fs.name)
        if where is not None:
            return where
        # e.g. RuntimeError('generator raised StopIteration'): the frame is on the cause
        exc = exc.__cause__ or exc.__context__
        seen += 1
    return "native"


class SmallestViolations:
    """Worker-side violation sink that keeps only the smallest case per signature
    (par.Acc caps at 200 raw entries, which could drop the smallest one)."""

    def __init__(self, acc, key="input"):
        self.acc = acc
        self.key = key
        self.best = {}

    def add(self, sig, detail, rank=None):
        """rank: optional explicit ordering key (smaller = simpler); stored as detail['rank']."""
        self.acc.count("violations_raw")
        self.acc.count("sig:" + sig)
        if rank is not None:
            detail = dict(detail, rank=list(rank))
        k = (detail.get("rank", []), size_of(detail.get(self.key, detail)), repr(detail.get(self.key, detail)))
        if sig not in self.best or k < self.best[sig][0]:
            self.best[sig] = (k, detail)

    def flush(self):
        for sig in sorted(self.best):
            self.acc.violations.append((sig, self.best[sig][1]))
