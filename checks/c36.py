"""C36 - Git identifier mappings round-trip.

Exhaustive there-and-back checks on the real conversion functions:
(a) ``escape_file_id``/``unescape_file_id`` and ``generate_file_id``/``parse_file_id`` for every
byte string of <= 5 (thorough 6) bytes over {a s c _ space / \\x0c \\xff %} (bytes paths, and the
same paths as surrogate-escaped str); (b) SHA <-> revision id through
``BzrGitMappingv1``/``Experimental`` and the mapping registry for a corner set of SHAs and
revision ids; (c) branch/tag name <-> ref for every name of <= 3 tokens over
{a b / u-umlaut HEAD refs heads tags refs/ refs/heads/ .} and every ref built from them (both
directions); (d) git URL (+ branch / ref) -> breezy URL -> (url, branch, ref) with the Rust
``bzr_url_to_git_url`` for every location x branch x ref of a grammar with characters that need
escaping, and breezy URL -> git -> breezy URL; (e) ``set_parent`` on real git branches
(``master`` and a colocated ``a/b``) for every URL of the same grammar, re-opened,
``get_parent`` must be an equivalent URL (same base, same target ref).
Refusals by ValueError/InvalidRevisionId put an input outside the domain.
"""
import itertools
import os
from urllib.parse import unquote_to_bytes

from mc import par
from mc.evidence import HarnessError

from ._sigacc import SigAcc, smallest

ID = "C36"
LEVEL = "exploration"
TECHNIQUE = "exhaustive small-scope enumeration of identifiers through the real conversion pairs (Python and Rust), composed there-and-back, plus set_parent/get_parent on real git branches"

FID_BYTES = (b"a", b"s", b"c", b"_", b" ", b"/", b"\x0c", b"\xff", b"%")
NAME_TOKENS = ("a", "b", "/", "ü", "HEAD", "refs", "heads", "tags", "refs/", "refs/heads/", ".")


def _exc_sig(e):
    import traceback
    fn = "?"
    for fr in traceback.extract_tb(e.__traceback__):
        if "/breezy/" in fr.filename:
            fn = fr.name
    return "%s:%s" % (type(e).__name__, fn)


# ---- (a) file ids --------------------------------------------------------------

def _work_a(chunk):
    from breezy.git import mapping as gm
    m = gm.BzrGitMappingv1()
    acc = SigAcc()
    seen = {}
    for first, maxlen in chunk:
        for k in range(0, maxlen):
            for rest in itertools.product(FID_BYTES, repeat=k):
                raw = first + b"".join(rest)
                acc.n += 1
                try:
                    esc = gm.escape_file_id(raw)
                    back = gm.unescape_file_id(esc)
                    fid = m.generate_file_id(raw)
                    p = m.parse_file_id(fid)
                    sp = raw.decode("utf-8", "surrogateescape")
                    fid2 = m.generate_file_id(sp)
                    p2 = m.parse_file_id(fid2)
                except Exception as e:  # noqa
                    acc.violation("file-id:%s" % _exc_sig(e), {"path": raw})
                    continue
                special = any(c in raw for c in (b"_", b" ", b"\x0c", b"\xff"))
                if special:
                    acc.count("nt_a")
                if back != raw:
                    acc.violation("file-id:unescape-escape-not-identity", {"bytes": raw, "escaped": esc, "back": back})
                elif b" " in esc or b"\x0c" in esc:
                    acc.violation("file-id:escaped-form-contains-raw-special", {"bytes": raw, "escaped": esc})
                elif not isinstance(p, str) or p.encode("utf-8", "surrogateescape") != raw:
                    acc.violation("file-id:parse-generate-not-identity:%s" % ("non-utf8" if b"\xff" in raw else "utf8"),
                                  {"path": raw, "file_id": fid, "parsed": p})
                elif fid2 != fid or p2 != sp:
                    acc.violation("file-id:str-and-bytes-paths-disagree", {"path": raw, "file_id": fid, "file_id_str": fid2})
                elif fid in seen and seen[fid] != raw:
                    acc.violation("file-id:two-paths-one-id", {"paths": [seen[fid], raw], "file_id": fid})
                else:
                    # the other direction, on ids the mapping produces
                    if m.generate_file_id(p) != fid:
                        acc.violation("file-id:generate-parse-not-identity", {"file_id": fid, "parsed": p})
                if len(raw) <= 3:
                    seen[fid] = raw
                if acc.n == 500:
                    acc.sample({"path": raw, "file_id": fid})
    if True:
        if m.parse_file_id(m.generate_file_id(b"")) != "" or m.generate_file_id("") != gm.ROOT_ID:
            acc.violation("file-id:root-not-identity", {})
    return acc


# ---- (b) revision ids ------------------------------------------------------------

SHAS = [b"0" * 40, b"0" * 39 + b"1", b"f" * 40, b"a" * 40, b"0123456789abcdef0123456789abcdef01234567",
        b"1" + b"0" * 39, b"deadbeef" * 5, b"A" * 40, b"git-v1" + b"0" * 34, b"7" * 40]


def part_b(acc):
    from dulwich.protocol import ZERO_SHA
    from breezy import errors
    from breezy.git import mapping as gm
    from breezy.revision import NULL_REVISION
    reg = gm.mapping_registry
    for cls in (gm.BzrGitMappingv1, gm.BzrGitMappingExperimental):
        m = cls()
        for sha in SHAS:
            acc.n += 1
            acc.count("nt_b")
            try:
                revid = m.revision_id_foreign_to_bzr(sha)
                back = reg.revision_id_bzr_to_foreign(revid)
            except Exception as e:  # noqa
                acc.violation("revid:%s" % _exc_sig(e), {"sha": sha, "mapping": cls.__name__})
                continue
            if sha == ZERO_SHA:
                ok = revid == NULL_REVISION and back[0] == ZERO_SHA
            else:
                ok = back[0] == sha and back[1] == m and revid != NULL_REVISION
            if not ok:
                acc.violation("revid:sha-to-revid-and-back-not-identity", {"sha": sha, "revid": revid, "back": back[0],
                                                                          "mapping": cls.__name__})
            # class-level inverse (refuses null:)
            try:
                b2 = m.revision_id_bzr_to_foreign(revid)
                if b2[0] != sha:
                    acc.violation("revid:class-level-back-not-identity", {"sha": sha, "revid": revid, "back": b2[0]})
            except errors.InvalidRevisionId:
                acc.outcomes.add(("class-level-refuses", revid))
    revids = [b"null:"] + [p + b":" + s for p in (b"git-v1", b"git-experimental") for s in SHAS[1:6]] + \
        [b"git-v2:" + SHAS[1], b"svn-v4:x", b"git-v1", b"", b"git-v1:", b"git-v1:" + SHAS[1] + b":x"]
    for revid in revids:
        acc.n += 1
        try:
            sha, m = reg.revision_id_bzr_to_foreign(revid)
        except (errors.InvalidRevisionId, KeyError, ValueError):
            acc.outcomes.add(("refused", revid))
            continue
        except Exception as e:  # noqa
            acc.violation("revid:%s" % _exc_sig(e), {"revid": revid})
            continue
        try:
            back = (m or gm.BzrGitMappingv1()).revision_id_foreign_to_bzr(sha)
        except Exception as e:  # noqa
            acc.violation("revid:%s" % _exc_sig(e), {"revid": revid})
            continue
        if back != revid:
            acc.violation("revid:revid-to-sha-and-back-not-identity", {"revid": revid, "sha": sha, "back": back})


# ---- (c) refs -------------------------------------------------------------------

def names(maxlen):
    out = []
    seen = set()
    for k in range(0, maxlen + 1):
        for w in itertools.product(NAME_TOKENS, repeat=k):
            s = "".join(w)
            if s not in seen:
                seen.add(s)
                out.append(s)
    return out


def name_class(name):
    if name.startswith("refs/"):
        return "name-starting-with-refs/"
    if name == "":
        return "empty-name"
    return "ordinary-name"


def part_c(acc, maxlen):
    from dulwich.refs import check_ref_format
    from breezy.git import refs as gr
    for name in names(maxlen):
        if name != "" and not check_ref_format(b"refs/heads/" + name.encode("utf-8")):
            continue                # git could not have a branch or tag of that name
        acc.n += 1
        if "/" in name or "ü" in name or name in ("", "HEAD"):
            acc.count("nt_c")
        # branch name -> ref -> branch name
        try:
            ref = gr.branch_name_to_ref(name)
            try:
                back = gr.ref_to_branch_name(ref)
            except ValueError:
                acc.outcomes.add(("branch-ref-refused-on-the-way-back", name_class(name)))
                back = name
        except Exception as e:  # noqa
            acc.violation("branch-name:%s" % _exc_sig(e), {"name": name})
            back = name
        if back != name:
            acc.violation("branch-name:name-to-ref-and-back-not-identity:%s" % name_class(name),
                          {"name": name, "ref": ref, "back": back})
        # tag name -> ref -> tag name
        try:
            tref = gr.tag_name_to_ref(name)
            tback = gr.ref_to_tag_name(tref)
            if tback != name or not tref.startswith(b"refs/tags/"):
                acc.violation("tag-name:name-to-ref-and-back-not-identity", {"name": name, "ref": tref, "back": tback})
        except Exception as e:  # noqa
            acc.violation("tag-name:%s" % _exc_sig(e), {"name": name})
        # ref -> name -> ref, for refs built from the same words (+ non-utf8)
        for raw in {name.encode("utf-8"), name.encode("utf-8") + b"\xff"}:
            for prefix in (b"", b"refs/heads/", b"refs/tags/", b"refs/remotes/"):
                ref = prefix + raw
                if ref != b"HEAD" and not check_ref_format(ref):
                    continue        # not a ref git could have
                acc.n += 1
                for kind, to_name, to_ref in (("branch", gr.ref_to_branch_name, gr.branch_name_to_ref),
                                              ("tag", gr.ref_to_tag_name, gr.tag_name_to_ref)):
                    try:
                        n2 = to_name(ref)
                    except ValueError:          # documented refusal (UnicodeDecodeError is a ValueError)
                        acc.outcomes.add((kind, "refused", prefix))
                        continue
                    except Exception as e:  # noqa
                        acc.violation("%s-ref:%s" % (kind, _exc_sig(e)), {"ref": ref})
                        continue
                    try:
                        r2 = to_ref(n2)
                    except Exception as e:  # noqa
                        acc.violation("%s-ref:%s" % (kind, _exc_sig(e)), {"ref": ref, "name": n2})
                        continue
                    if r2 != ref:
                        acc.violation("%s-ref:ref-to-name-and-back-not-identity:%s" % (kind, name_class(n2)),
                                      {"ref": ref, "name": n2, "back": r2})


# ---- (d)/(e) URLs ---------------------------------------------------------------

LOCATIONS = ("git://h/p", "git+ssh://u@h/p", "https://h/p", "http://h:80/p/q", "ssh://h/p", "ftp://h/p",
             "u@h:p/q", "h:p", "h:/p", "https://h/p/", "https://h/~u/p%20q")
BRANCHES = (None, "main", "a/b", "ü", "a,b", "a=b", "a%b", "a b", "HEAD", "refs/x")
REFS = (None, b"HEAD", b"refs/heads/x", b"refs/heads/a/b", b"refs/tags/v1", b"refs/tags/\xc3\xbc", b"refs/x",
        b"refs/tags/a,b=c", b"refs/tags/a%b", b"refs/heads/\xff")


def parse_bzr_url(url):
    """(base, {param: raw value}) - independent of breezy's urlutils."""
    head, sep, tail = url.rpartition("/")
    segs = tail.split(",")
    params = {}
    for s in segs[1:]:
        k, _, v = s.partition("=")
        params[k] = v
    return head + sep + segs[0], params


def target_of(params):
    """The git ref a breezy URL's parameters denote."""
    if "branch" in params and params["branch"] != "":
        return b"refs/heads/" + unquote_to_bytes(params["branch"])
    if "ref" in params:
        return unquote_to_bytes(params["ref"])
    return b"HEAD"


def intended_target(branch, ref):
    if ref is not None:
        return ref
    if branch:
        return b"refs/heads/" + branch.encode("utf-8")
    return b"HEAD"


def tclass(t):
    if t == b"HEAD":
        return "no-branch"
    if t.startswith(b"refs/heads/"):
        body = t[len(b"refs/heads/"):]
        try:
            body.decode("utf-8")
        except UnicodeDecodeError:
            return "ref"       # cannot be a branch name: travels as ref=
        return "branch" if body.isalnum() and body.isascii() else "branch-needing-escape"
    return "ref"


def part_d(acc):
    from breezy.git.urls import bzr_url_to_git_url, git_url_to_bzr_url
    for loc in LOCATIONS:
        for branch, ref in [(b, None) for b in BRANCHES] + [(None, r) for r in REFS[1:]]:
            acc.n += 1
            want = intended_target(branch, ref)
            detail = {"location": loc, "branch": branch, "ref": ref}
            try:
                u = git_url_to_bzr_url(loc, branch=branch, ref=ref)
            except Exception as e:  # noqa
                acc.violation("url:git-to-bzr:%s" % _exc_sig(e), detail)
                continue
            detail["bzr_url"] = u
            try:
                u.encode("ascii")
            except UnicodeEncodeError:
                acc.violation("url:git-to-bzr:result-not-ascii", detail)
                continue
            base, params = parse_bzr_url(u)
            if target_of(params) != want:
                acc.violation("url:git-to-bzr:parameters-do-not-denote-the-ref:%s" % tclass(want), detail)
                continue
            if want != b"HEAD":
                acc.count("nt_d")
            try:
                t, b, r = bzr_url_to_git_url(u)
            except Exception as e:  # noqa
                acc.violation("url:bzr-to-git:%s" % _exc_sig(e), detail)
                continue
            detail["back"] = [t, b, r]
            if isinstance(r, str):
                r = r.encode("utf-8")
            got = intended_target(b, r)
            if t != base:
                acc.violation("url:there-and-back:base-url-changed", detail)
            elif got != want:
                acc.violation("url:there-and-back:%s-%s" % (tclass(want), "lost" if got == b"HEAD" else "changed"), detail)
            else:
                # and there again
                try:
                    u2 = git_url_to_bzr_url(t, branch=b, ref=r)
                except Exception as e:  # noqa
                    acc.violation("url:git-to-bzr:%s" % _exc_sig(e), detail)
                    continue
                if u2 != u:
                    acc.violation("url:there-and-back-and-there:url-changed:%s" % tclass(want), dict(detail, again=u2))
            acc.outcomes.add((tclass(want), got == want))


class _Trees:
    def __init__(self):
        from mc import wt
        t = wt.make_tree("git")
        self.root = t.basedir
        with open(os.path.join(self.root, "f"), "w") as f:
            f.write("x\n")
        t.add(["f"])
        t.commit("one", rev_id=None, timestamp=1e9, timezone=0, committer="C <c@example.com>")
        tip = t.branch.last_revision()
        nb = t.controldir.create_branch(name="a/b")
        with nb.lock_write():
            nb.generate_revision_history(tip)
        from breezy.controldir import ControlDir
        for name in ("master", "a/b"):
            try:
                if ControlDir.open(self.root).open_branch(name=name).last_revision() != tip:
                    raise HarnessError("branch %s not set up" % name)
            except HarnessError:
                raise
            except Exception as e:  # noqa
                raise HarnessError("cannot set up colocated git branch %r: %r" % (name, e)) from e


def part_e(acc):
    from breezy.controldir import ControlDir
    from breezy.git.urls import git_url_to_bzr_url
    from mc import wt
    T = _Trees()
    sibling = os.path.join(os.path.dirname(T.root), "other")
    locs = list(LOCATIONS) + ["file://" + sibling, sibling]
    for bname in ("master", "a/b"):
        for loc in locs:
            for branch, ref in [(b, None) for b in BRANCHES] + [(None, r) for r in REFS[1:]]:
                acc.n += 1
                want_t = intended_target(branch, ref)
                try:
                    u = git_url_to_bzr_url(loc, branch=branch, ref=ref)
                    u.encode("ascii")
                except Exception:  # noqa  (reported by part d)
                    continue
                base, params = parse_bzr_url(u)
                if target_of(params) != want_t:
                    continue
                detail = {"this_branch": bname, "parent_url": u}
                try:
                    br = ControlDir.open(T.root).open_branch(name=bname)
                except Exception as e:  # noqa
                    raise HarnessError("cannot re-open git branch %r: %r" % (bname, e)) from e
                try:
                    br.set_parent(u)
                    br2 = ControlDir.open(T.root).open_branch(name=bname)
                    got = br2.get_parent()
                except Exception as e:  # noqa
                    acc.violation("parent:%s:%s" % (_exc_sig(e), tclass(want_t)), detail)
                    continue
                detail["read_back"] = got
                if want_t != b"HEAD":
                    acc.count("nt_e")
                if got is None:
                    acc.violation("parent:read-back-none", detail)
                    continue
                gbase, gparams = parse_bzr_url(got)
                wbase = base
                if not wbase.startswith(("/",)) and "://" not in wbase:
                    wbase = None
                if wbase is not None and wbase.startswith("/"):
                    wbase = "file://" + wbase
                if wbase is not None and gbase.rstrip("/") != wbase.rstrip("/"):
                    acc.violation("parent:base-url-changed", detail)
                elif target_of(gparams) != want_t:
                    acc.violation("parent:%s-%s" % (tclass(want_t), "lost" if target_of(gparams) == b"HEAD" else "changed"),
                                  detail)
                acc.outcomes.add(("parent", tclass(want_t), target_of(gparams) == want_t))
    wt.rmtree(T.root)


def _work_misc(chunk):
    acc = SigAcc()
    for what, arg in chunk:
        if what == "b":
            part_b(acc)
        elif what == "c":
            part_c(acc, arg)
        elif what == "d":
            part_d(acc)
        elif what == "e":
            part_e(acc)
    return acc


def _smallest(violations):
    best = {}
    for sig, d in violations:
        k = len(repr(d))
        if sig not in best or k < best[sig][0]:
            best[sig] = (k, d)
    return [(s, best[s][1]) for s in sorted(best)]


def run(ctx):
    import breezy._git_rs as rs
    if not os.path.realpath(rs.__file__).startswith(os.path.realpath(os.environ.get("VERIF_REPO", "/repo"))):
        raise HarnessError("_git_rs loaded from %s" % rs.__file__)
    maxlen = ctx.q(5, 6)
    a_items = [(f, maxlen) for f in FID_BYTES]
    # split further for balance: two-byte prefixes
    a_items = [(f + g, maxlen - 1) for f in FID_BYTES for g in FID_BYTES] + [(f, 1) for f in FID_BYTES]
    acc_a = par.merge(par.pmap(_work_a, a_items, seed=ctx.seed))
    acc_m = par.merge(par.pmap(_work_misc, [("b", None), ("c", ctx.q(3, 4)), ("d", None), ("e", None)], seed=ctx.seed,
                               chunks_per_job=1))
    ctx.extend(_smallest(acc_a.violations + acc_m.violations))
    ctx.assumptions.append("the Rust extension breezy/_git_rs*.so found in the checked tree is the build of crates/git "
                           "(rebuild it after editing the crate)")
    ctx.assumptions.append("two URLs are equivalent when they have the same base (modulo a trailing slash) and their "
                           "branch/ref parameters denote the same git ref (no parameter = HEAD)")
    nt = sum(acc_a.counters.get(k, 0) for k in ("nt_a",)) + sum(acc_m.counters.get(k, 0) for k in ("nt_b", "nt_c", "nt_d", "nt_e"))
    return {
        "evaluations": acc_a.n + acc_m.n,
        "file_id_paths": acc_a.n, "max_path_bytes": maxlen,
        "other_evaluations": acc_m.n,
        "url_cases": acc_m.counters.get("nt_d", 0), "parent_cases": acc_m.counters.get("nt_e", 0),
        "distinct_nontrivial": nt,
        "distinct_outcomes": len(acc_a.outcomes) + len(acc_m.outcomes),
        "rule": "distinct by construction; non-trivial = path containing a character that is escaped or not UTF-8; every SHA; "
                "name with '/', non-ASCII, empty or HEAD; URL / parent with a branch or ref parameter",
        "samples": acc_a.samples[:2] + [{"location": LOCATIONS[6], "branch": BRANCHES[2]}],
        "exhaustive": True,
    }
