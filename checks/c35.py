"""C35 - Git object export is consistent (incremental = from scratch) and round-trips.

Bounded exhaustive enumeration of native histories: every connected DAG with
<= n revisions (ordered parents, <= 2) x every assignment of a whole-tree state
(checks/_hist.STATES: files, nested/empty directories, symlinks, exec flips,
renames, directory renames, kind changes, binary/empty content) to every
revision, committed with the real commit code into an on-disk
2a repository.  Per history, for EVERY revision the root tree SHA and the full
(path -> mode, sha) walk are computed five ways and must agree:
 E  expected git encoding computed by the harness from the tree spec (own sha1),
 X1 lossy Branch.push into a fresh bare git repository with a cold SHA cache
    (incremental _tree_to_objects with parents; objects read back from git),
 X2 the SHA-map cache after BazaarObjectStore._update_sha_map() plus
    reconstruction of every tree through store[sha],
 X3 a second push with the warm cache,
 X4 from-scratch _tree_to_objects(tree, parent_trees=[], empty id map).
Round trip: the pushed git repository is fetched into a fresh 2a repository;
every revision's tree must list the same paths, contents, exec bits and link
targets (empty directories excepted).  Git-born histories: in that fetched
repository every object of the git repository must be re-exported byte-identical
by BazaarObjectStore, both with the cache written by the import and with the
cache wiped and rebuilt; the same for git repositories built directly with
dulwich from the histories with an unusual file mode (0100664).  A separate
small sub-run uses single-character file names.
"""
import hashlib
import os
import shutil
import stat
import tempfile
import traceback

from mc import boot, par
from mc.evidence import HarnessError
from checks import _hist

ID = "C35"
LEVEL = "exploration"
TECHNIQUE = "exhaustive small-scope history enumeration (connected DAGs x tree-state assignments) with a 5-way differential tree-SHA oracle and push/fetch round trip on the real code"

EMPTY_TREE = b"4b825dc642cb6eb9a060e54bf8d69288fbee4904"


# ---- the harness's own git encoding (oracle E) -------------------------------------------

def blob_sha(data):
    return hashlib.sha1(b"blob %d\x00" % len(data) + data).hexdigest().encode("ascii")


def tree_bytes(entries):
    """entries: [(name bytes, mode int, hexsha bytes)] -> raw tree object body (git sort order)."""
    def key(e):
        return e[0] + (b"/" if stat.S_ISDIR(e[1]) else b"")
    return b"".join(b"%o %s\x00" % (mode, name) + bytes.fromhex(sha.decode("ascii"))
                    for name, mode, sha in sorted(entries, key=key))


def tree_sha_of(body):
    return hashlib.sha1(b"tree %d\x00" % len(body) + body).hexdigest().encode("ascii")


def expected_git(spec, mode_override=None, objects=None):
    """(root tree sha, {path: (mode, sha)}) for a tree spec; recursively empty directories are
    not representable in git and are dropped.  objects (dict sha -> (type, raw)) collects what a
    git repository needs."""
    children = {}
    for p, e in spec.items():
        parent, _, name = p.rpartition("/")
        children.setdefault(parent, []).append((name, p, e))
    walk = {}

    def conv(dirpath):
        entries = []
        for name, p, e in children.get(dirpath, []):
            if e.kind == "directory":
                sub = conv(p)
                if sub is None:
                    continue
                mode, sha = stat.S_IFDIR, sub
            elif e.kind == "symlink":
                data = e.content.encode("utf-8")
                mode, sha = stat.S_IFLNK, blob_sha(data)
                if objects is not None:
                    objects[sha] = (b"blob", data)
            else:
                mode = stat.S_IFREG | (0o755 if e.exec else 0o644)
                if mode_override and p in mode_override:
                    mode = mode_override[p]
                sha = blob_sha(e.content)
                if objects is not None:
                    objects[sha] = (b"blob", e.content)
            walk[p] = (mode, sha)
            entries.append((name.encode("utf-8"), mode, sha))
        if not entries and dirpath != "":
            return None
        body = tree_bytes(entries)
        sha = tree_sha_of(body)
        if objects is not None:
            objects[sha] = (b"tree", body)
        return sha

    root = conv("")
    return root, walk


# ---- observations ---------------------------------------------------------------------

class Missing(Exception):
    pass


def walk_objects(get, root):
    """{path: (mode, sha)} below tree `root`; get(sha) -> dulwich object or raises KeyError."""
    out = {}

    def rec(sha, prefix):
        try:
            t = get(sha)
        except KeyError:
            raise Missing("tree %s at %r" % (sha.decode(), prefix))
        if t.type_name != b"tree":
            raise Missing("object %s at %r is a %s, not a tree" % (sha.decode(), prefix, t.type_name))
        for name, mode, csha in t.iteritems():
            p = (prefix + "/" if prefix else "") + name.decode("utf-8")
            out[p] = (mode, csha)
            if stat.S_ISDIR(mode):
                rec(csha, p)
            else:
                try:
                    b = get(csha)
                except KeyError:
                    raise Missing("blob %s at %r" % (csha.decode(), p))
                if b.type_name != b"blob" or blob_sha(b.data) != csha:
                    raise Missing("blob %s at %r is corrupt" % (csha.decode(), p))
    if root != EMPTY_TREE:
        rec(root, "")
    return out


class EmptyIdmap:
    def lookup_blob_id(self, file_id, revision):
        raise KeyError(file_id)

    def lookup_tree_id(self, file_id, revision):
        raise KeyError(file_id)


def sig_exc(stage, e):
    """stage:ExcClass:innermost /repo function."""
    fn = "?"
    for fr in traceback.extract_tb(e.__traceback__):
        if fr.filename.startswith(boot.REPO + "/"):
            fn = "%s.%s" % (os.path.basename(fr.filename)[:-3], fr.name)
    return "%s:%s:%s" % (stage, type(e).__name__, fn)


_BASE = {}


def base_dir():
    if "d" not in _BASE or _BASE.get("pid") != os.getpid():
        _BASE["d"] = boot.scratch("c35")
        _BASE["pid"] = os.getpid()
    return _BASE["d"]


def new_git(path):
    from breezy import controldir
    from breezy.controldir import ControlDir
    os.makedirs(path)
    f = controldir.format_registry.make_controldir("git-bare")
    return ControlDir.create_branch_convenience(path, format=f)


def fmt_walk(w):
    return {p: "%o %s" % (m, s.decode()) for p, (m, s) in sorted(w.items())}


def first_diff(a, b):
    for p in sorted(set(a) | set(b)):
        if a.get(p) != b.get(p):
            return {"path": p, "left": None if p not in a else "%o %s" % (a[p][0], a[p][1].decode()),
                    "right": None if p not in b else "%o %s" % (b[p][0], b[p][1].decode())}
    return None


def check_history(dag, assign, acc, states=_hist.STATES, tag="", unusual=True, obs=None):
    """Run every comparison on one history.  Returns nothing; records into acc."""
    from breezy.git.object_store import BazaarObjectStore, _tree_to_objects
    from breezy.branch import Branch
    from mc import world as mw
    hist = {"dag": [list(p) for p in dag], "states": list(assign)}
    root_dir = tempfile.mkdtemp(prefix="h-", dir=base_dir())
    sfx = ":" + tag if tag else ""

    def vio(sig, **d):
        d.update(hist)
        acc.violation(sig + sfx, d)

    try:
        b = mw.make_branch(os.path.join(root_dir, "src"), "2a")
        ids = _hist.commit_history(b, dag, assign, states=states)
        n = len(ids)
        exp = [expected_git(states[assign[i]]) for i in range(n)]
        repo = b.repository
        acc.n += 1
        if _hist.nontrivial_history(dag, assign):
            acc.nt((dag, assign, tag))

        # X4: from scratch, no parents, empty id map
        with repo.lock_read():
            for i, rid in enumerate(ids):
                tree = repo.revision_tree(rid)
                objs = {}
                root = None
                try:
                    for path, obj, _key in _tree_to_objects(tree, [], EmptyIdmap(), {}, None):
                        objs[obj.id] = obj
                        if path == "":
                            root = obj.id
                    if root is None:
                        root = EMPTY_TREE
                    w = walk_objects(objs.__getitem__, root)
                except Missing as e:
                    vio("scratch:incomplete-objects", rev=i, missing=str(e))
                    continue
                except Exception as e:  # noqa
                    vio(sig_exc("scratch", e), rev=i, error=str(e)[:300])
                    continue
                acc.count("cmp_scratch")
                acc.outcomes.add(root)
                if root != exp[i][0] or w != exp[i][1]:
                    vio("scratch:differs-from-git-encoding", rev=i, expected_root=exp[i][0], got_root=root,
                        diff=first_diff(exp[i][1], w))
                if obs is not None:
                    obs.append(("X4", i, root))

        # X1: cold push
        def push_and_walk(name, label):
            gb = new_git(os.path.join(root_dir, name))
            try:
                res = b.push(gb, lossy=True)
            except Exception as e:  # noqa
                vio(sig_exc(label, e), error=str(e)[:300])
                return None, None
            revidmap = getattr(res, "revidmap", None) or {}
            git = gb.repository._git
            out = {}
            for i, rid in enumerate(ids):
                if rid not in revidmap:
                    vio(label + ":revision-not-in-revidmap", rev=i)
                    continue
                csha = revidmap[rid][0]
                try:
                    c = git.object_store[csha]
                    w = walk_objects(git.object_store.__getitem__, c.tree)
                except Missing as e:
                    vio(label + ":missing-object-in-git", rev=i, missing=str(e))
                    continue
                except KeyError:
                    vio(label + ":missing-commit-in-git", rev=i)
                    continue
                acc.count("cmp_" + label)
                out[i] = (csha, c.tree, w)
                if c.tree != exp[i][0] or w != exp[i][1]:
                    vio(label + ":tree-differs-from-scratch", rev=i, expected_root=exp[i][0], got_root=c.tree,
                        diff=first_diff(exp[i][1], w))
                if obs is not None:
                    obs.append((label, i, csha, c.tree))
            tip = gb.last_revision()
            if ids[-1] in revidmap and tip != revidmap[ids[-1]][1]:
                vio(label + ":tip-not-updated", tip=tip)
            return gb, out

        g1, w1 = push_and_walk("g1", "push-cold")

        # X2: the cache after a full update + reconstruction through the store
        store = BazaarObjectStore(repo)
        try:
            with store.lock_read():
                store._update_sha_map()
                for i, rid in enumerate(ids):
                    csha = store._cache.idmap.lookup_commit(rid)
                    c = store[csha]
                    w = walk_objects(store.__getitem__, c.tree)
                    acc.count("cmp_cache")
                    if c.tree != exp[i][0] or w != exp[i][1]:
                        vio("cache:tree-differs-from-scratch", rev=i, expected_root=exp[i][0], got_root=c.tree,
                            diff=first_diff(exp[i][1], w))
                    if w1 and i in w1 and w1[i][0] != csha:
                        vio("cache:commit-sha-differs-from-pushed", rev=i, pushed=w1[i][0], cached=csha)
                    if obs is not None:
                        obs.append(("X2", i, csha, c.tree))
        except Missing as e:
            vio("cache:missing-object", missing=str(e))
        except Exception as e:  # noqa
            vio(sig_exc("cache", e), error=str(e)[:300])

        # X3: warm push
        g2, w2 = push_and_walk("g2", "push-warm")
        if w1 is not None and w2 is not None:
            for i in range(n):
                if i in w1 and i in w2 and w1[i][:2] != w2[i][:2]:
                    vio("push:cold-and-warm-differ", rev=i, cold=w1[i][:2], warm=w2[i][:2])

        # round trip
        if g1 is not None:
            roundtrip(root_dir, "rt", g1, {i: w1[i][0] for i in w1}, [states[assign[i]] for i in range(n)],
                      acc, vio, obs)
        # git-born with unusual modes: built directly
        if unusual:
            direct_git(root_dir, dag, assign, states, acc, vio, obs)
    finally:
        shutil.rmtree(root_dir, ignore_errors=True)


def roundtrip(root_dir, name, gb, commit_of, specs, acc, vio, obs, mode_override=None, label="roundtrip"):
    """Fetch git branch gb into a fresh 2a repository; compare trees; then re-export and compare objects."""
    from breezy.git.object_store import BazaarObjectStore
    from mc import world as mw
    b2 = mw.make_branch(os.path.join(root_dir, name), "2a")
    try:
        b2.pull(gb)
    except Exception as e:  # noqa
        vio(sig_exc(label + "-fetch", e), error=str(e)[:300])
        return
    repo2 = b2.repository
    mapping = gb.repository.get_mapping() if hasattr(gb.repository, "get_mapping") else None
    from breezy.git.mapping import default_mapping
    mapping = mapping or default_mapping
    with repo2.lock_read():
        for i, csha in sorted(commit_of.items()):
            rid = mapping.revision_id_foreign_to_bzr(csha)
            if not repo2.has_revision(rid):
                vio(label + ":revision-missing-after-fetch", rev=i)
                continue
            got = _hist.tree_listing(repo2.revision_tree(rid), drop_empty_dirs=True)
            want = _hist.listing(specs[i], drop_empty_dirs=True)
            acc.count("cmp_" + label)
            if got != want:
                p = sorted(q for q in set(got) | set(want) if got.get(q) != want.get(q))[0]
                vio(label + ":tree-differs", rev=i, path=p, want=want.get(p), got=got.get(p))
            if obs is not None:
                obs.append((label, i, sorted(got)))
    # git-born: re-export reproduces every object
    git = gb.repository._git
    all_shas = sorted(git.object_store)

    def reexport(stage):
        store = BazaarObjectStore(repo2)
        try:
            with store.lock_read():
                store._update_sha_map()
                for sha in all_shas:
                    orig = git.object_store[sha]
                    try:
                        o = store[sha]
                    except KeyError:
                        vio("%s:%s:object-not-reproduced:%s" % (label, stage, orig.type_name.decode()), sha=sha)
                        return
                    acc.count("cmp_reexport")
                    if o.type_name != orig.type_name or o.as_raw_string() != orig.as_raw_string():
                        vio("%s:%s:object-differs:%s" % (label, stage, orig.type_name.decode()), sha=sha)
                        return
                for i, csha in sorted(commit_of.items()):
                    rid = mapping.revision_id_foreign_to_bzr(csha)
                    if store._lookup_revision_sha1(rid) != csha:
                        vio("%s:%s:commit-sha-differs" % (label, stage), rev=i)
                    tsha = None
                    for kind, data in store.lookup_git_sha(csha):
                        if kind == "commit":
                            tsha = data[1]
                    if tsha != git.object_store[csha].tree:
                        vio("%s:%s:cached-tree-sha-differs" % (label, stage), rev=i, cached=tsha,
                            original=git.object_store[csha].tree)
        except Exception as e:  # noqa
            vio(sig_exc("%s:%s" % (label, stage), e), error=str(e)[:300])

    reexport("import-cache")
    cache_dir = os.path.join(root_dir, name, ".bzr", "repository", "git")
    if not os.path.isdir(cache_dir):
        raise HarnessError("expected the SHA cache in %s" % cache_dir)
    shutil.rmtree(cache_dir)
    reexport("rebuilt-cache")


UNUSUAL = 0o100664


def direct_git(root_dir, dag, assign, states, acc, vio, obs):
    """Build the git repository directly (harness encoding) with an unusual mode on every file whose
    file id is s-id/t-id, fetch it into 2a and require re-export to reproduce every object."""
    from dulwich.objects import Commit, ShaFile
    specs = [states[a] for a in assign]
    overrides = []
    any_unusual = False
    for s in specs:
        ov = {p: UNUSUAL for p, e in s.items() if e.kind == "file" and e.fid in (b"s-id", b"t-id") and not e.exec}
        any_unusual = any_unusual or bool(ov)
        overrides.append(ov)
    if not any_unusual:
        return
    acc.count("histories_with_unusual_mode")
    gb = new_git(os.path.join(root_dir, "g3"))
    git = gb.repository._git
    commits = []
    for i, ps in enumerate(dag):
        objects = {}
        root, _ = expected_git(specs[i], overrides[i], objects)
        for sha, (tname, raw) in objects.items():
            tnum = {b"blob": 3, b"tree": 2}[tname]
            o = ShaFile.from_raw_string(tnum, raw)
            if o.id != sha:
                raise HarnessError("own git encoding disagrees with dulwich for %r" % (sha,))
            git.object_store.add_object(o)
        c = Commit()
        c.tree = root
        c.parents = [commits[p] for p in ps]
        c.author = c.committer = b"Committer <c@example.com>"
        c.author_time = c.commit_time = 1_000_000_000 + 60 * i
        c.author_timezone = c.commit_timezone = 0
        c.message = b"commit %d" % i
        git.object_store.add_object(c)
        commits.append(c.id)
    git.refs[b"refs/heads/master"] = commits[-1]
    roundtrip(root_dir, "rt3", gb, dict(enumerate(commits)), specs, acc, vio, obs, label="gitborn-unusual")


# ---- workers --------------------------------------------------------------------------

def _work(chunk):
    acc = par.Acc()
    for dag, assign in chunk:
        check_history(dag, assign, acc)
        acc.sample({"dag": [list(p) for p in dag], "states": list(assign)})
    return acc


ONE_CHAR = (
    {},
    {"a": _hist.F(b"a-id", b"1\n"), "d": _hist.D(b"d-id"), "d/s": _hist.F(b"s-id", b"s\n")},
    {"a": _hist.F(b"a-id", b"2\n"), "d": _hist.D(b"d-id"), "d/s": _hist.F(b"s-id", b"s\n", True)},
)


def _work_onechar(chunk):
    acc = par.Acc()
    for dag, assign in chunk:
        check_history(dag, assign, acc, states=ONE_CHAR, tag="one-char-names", unusual=False)
    return acc


def run(ctx):
    if ctx.thorough:
        items = _hist.histories(4, 7, nstates_for={4: 4})
        bound = "connected DAGs <= 3 revisions x 7 tree states, 4 revisions x 4 tree states"
    else:
        items = _hist.histories(3, 6)
        bound = "connected DAGs <= 3 revisions x 6 tree states"
    stride = int(os.environ.get("VERIF_DEV_STRIDE", "1") or 1)     # development aid only: every k-th history
    items = items[::stride]
    # determinism audit: the first histories twice, observation logs must be equal
    audit = [h for h in items if len(h[0]) == 3][:3]
    for h in audit:
        o1, o2 = [], []
        check_history(h[0], h[1], par.Acc(), obs=o1)
        check_history(h[0], h[1], par.Acc(), obs=o2)
        if o1 != o2 or not o1:
            raise HarnessError("determinism audit failed for %r" % (h,))
    acc = par.merge(par.pmap(_work, items, seed=ctx.seed))
    one = _hist.histories(ctx.q(2, 3), len(ONE_CHAR))
    acc1 = par.merge(par.pmap(_work_onechar, one, seed=ctx.seed))

    def size(d):
        return (len(d.get("dag", [])), sum(len(p) for p in d.get("dag", [])), sum(d.get("states", [])))
    for a in (acc, acc1):
        best = {}
        for sig, d in a.violations:
            if sig not in best or size(d) < size(best[sig]):
                best[sig] = d
        for sig in sorted(best):
            ctx.violation(sig, best[sig])
    ctx.assumptions.append("tree states are the whole-tree states of checks/_hist.STATES (names >= 2 characters); "
                           "the single-character-name sub-run uses its own 3 states")
    ctx.assumptions.append("pushes are lossy (the default git mapping does not roundtrip); bzr repositories are on-disk 2a "
                           "so that each has its own SHA-map cache (default format: index)")
    ctx.assumptions.append("dulwich (object hashing/storage) is trusted environment; expected SHAs are computed by the harness' own encoder")
    cnt = dict(acc.counters)
    for k, v in acc1.counters.items():
        cnt["onechar_" + k] = v
    return {
        "evaluations": acc.n + acc1.n,
        "histories": acc.n,
        "histories_one_char_names": acc1.n,
        "distinct_nontrivial": len(acc.nontrivial) + len(acc1.nontrivial),
        "rule": "every connected DAG x tree-state assignment within the bound; non-trivial = some revision "
                "differs from its left-hand parent or is a merge",
        "bound": bound,
        "comparisons": cnt,
        "distinct_root_tree_shas": len(acc.outcomes | acc1.outcomes),
        "samples": acc.samples[:3],
        "exhaustive": stride == 1,
        **({"capped": "VERIF_DEV_STRIDE=%d: every %d-th history only" % (stride, stride)} if stride > 1 else {}),
    }
