#!/usr/bin/env python3
"""Regenerate MANIFEST.json from the check modules' metadata (no breezy import)."""
import ast
import glob
import json
import os
import re

V = os.path.dirname(os.path.dirname(os.path.abspath(__file__)))
props = [json.loads(l) for l in open(os.path.join(V, "properties.jsonl"))]
ids = [p["id"] for p in props]


def meta(path):
    tree = ast.parse(open(path).read())
    out = {"doc": ast.get_docstring(tree) or ""}
    for node in tree.body:
        if isinstance(node, ast.Assign) and len(node.targets) == 1 and isinstance(node.targets[0], ast.Name):
            n = node.targets[0].id
            if n in ("ID", "LEVEL", "TECHNIQUE", "LEVEL_TEXT", "LEVEL_NOTE", "ENGINE"):
                try:
                    out[n] = ast.literal_eval(node.value)
                except Exception:
                    pass
    return out


checks = []
have = set()
claimed = None
cp = os.path.join(V, "claimed.txt")
if os.path.exists(cp):
    claimed = set(open(cp).read().split())
for path in sorted(glob.glob(os.path.join(V, "checks", "c[0-9]*.py"))):
    m = meta(path)
    pid = m.get("ID")
    if pid not in ids:
        continue
    if claimed is not None and pid not in claimed:
        continue
    have.add(pid)
    doc = " ".join(m["doc"].split())
    first = doc if len(doc) <= 1500 else doc[:1500].rsplit(" ", 1)[0] + " ..."
    first += " Level: every element of the stated finite space is executed on the real breezy code from /repo and judged by an oracle written from the property statement; bounds and measured sizes are in the evidence file."
    checks.append({
        "property_id": pid,
        "quick_cmd": "./run %s --tier quick" % pid,
        "thorough_cmd": "./run %s --tier thorough" % pid,
        "evidence_file": "evidence/%s.json" % pid,
        "replay_cmd_template": "./run %s --replay {path}" % pid,
        "engine": m.get("ENGINE", "mc"),
        "level_claimed": {
            "category": m["LEVEL"],
            "text": m.get("LEVEL_TEXT") or first,
            "design_ref": "DESIGN.md section 4, %s" % pid,
        },
        "level_note": m.get("LEVEL_NOTE", "Trusted: CPython, the pinned /venv packages (bzrformats, dromedary, dulwich, merge3, ...), "
                            "the harness in /verif/mc; bounds as stated in the evidence file."),
        "technique": m.get("TECHNIQUE", "bounded exhaustive exploration of the real implementation"),
    })

na_reasons = {}
nap = os.path.join(V, "not_applicable.json")
if os.path.exists(nap):
    na_reasons = json.load(open(nap))
na = []
for pid in ids:
    if pid not in have:
        na.append({"property_id": pid, "reason": na_reasons.get(pid, "not claimed: no check has been built for it yet (design in DESIGN.md section 4)")})

man = {
    "version": 1,
    "setup_cmd": "./setup.sh",
    "hooks": {
        "guard": "BREEZY_VERIF",
        "enable": "no source hooks: all seams are attached at run time (transport decorator, module attributes); BREEZY_VERIF=1 is exported by mc/boot.py but nothing in /repo reads it",
        "baseline_off_cmd": "cd /repo && /venv/bin/python -m pytest -ra -q -p no:cacheprovider --timeout=900 --continue-on-collection-errors",
        "source_commits": [],
        "add_only": True,
    },
    "engines": [
        {"name": "mc", "path": "mc/", "serves_properties": sorted(have),
         "kind_free_text": "hand-written explicit-state / stateless explorer for Python: choice-point DFS with preemption bound over baton-thread processes on a transport seam, crash-prefix and fault enumeration on the seam's op log, BFS over operation sequences against reference models, small-scope input enumeration"},
    ],
    "checks": checks,
    "notes": "All checks run the real breezy code from /repo's working tree (mc/boot.py asserts the import path). ./run <ID> --tier quick|thorough; exit 0 held, 1 violation, 2 harness error.",
    "not_applicable": na,
}
with open(os.path.join(V, "MANIFEST.json"), "w") as f:
    json.dump(man, f, indent=1)
    f.write("\n")
print("checks:", len(checks), "not claimed:", len(na))
