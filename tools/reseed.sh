#!/bin/sh
# reseed.sh ID name: rebuild /tmp/seed-ID-name from /verif/seeded/ID-name (patch.diff, demo.py, SEED.md)
set -e
id=$1; name=$2; d=/tmp/seed-$id-$name; s=/verif/seeded/$id-$name
git -C /repo worktree add --detach "$d" HEAD -q
cp /repo/breezy/*.so "$d/breezy/"
p=$s/patch.diff; [ -f $s/patch-on-current-head.diff ] && p=$s/patch-on-current-head.diff
git -C "$d" apply "$p"
cp $s/demo.py $d/demo_$id.py; [ -f $s/SEED.md ] && cp $s/SEED.md $d/SEED.md
echo "$d"
