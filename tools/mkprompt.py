#!/usr/bin/env python3
"""mkprompt.py 'C18 C39' 'extra notes' -> agent prompt text"""
import sys
ids = sys.argv[1].split()
notes = sys.argv[2] if len(sys.argv) > 2 else ""
t = open('/verif/tools/agent_prompt.txt').read()
t = t.replace('{IDS}', ', '.join(ids)).replace('{IDS_RE}', '|'.join(ids))
if notes:
    t = t.replace('\nDeliverables, per property Cxx:', '\nNotes specific to this group: ' + notes + '\n\nDeliverables, per property Cxx:')
print(t)
