#!/usr/bin/env python3
"""seed_prompt.py <ID> <worktree> [hint]: prints the prompt for an independent mutant-writing agent."""
import json, sys
pid, wt = sys.argv[1], sys.argv[2]
hint = sys.argv[3] if len(sys.argv) > 3 else ""
p = [json.loads(l) for l in open('/verif/properties.jsonl')]
p = [x for x in p if x['id'] == pid][0]
print(f"""You are testing how robust a software property is. The software is Breezy (a Python distributed version control system implementing the Bazaar formats, with Git interop). You have your own scratch git worktree of it at {wt} (built extension modules are already copied in). Work ONLY inside {wt} (and /tmp for scratch files). Do not look at or touch /repo, /verif or any other directory outside {wt}.

The property (it is supposed to hold for every input / schedule / crash point / history it quantifies over):

  Title: {p['title']}
  Statement: {p['statement']}
  Quantified over: {p['quantifier']['text']}
  Code it is anchored in: {', '.join(p['anchors']['files'])}

Your task: make ONE small, realistic change to the Breezy source in {wt} (the kind of bug a maintainer could plausibly introduce in a refactoring or an "optimisation": wrong operand, dropped branch, reordered steps, off-by-one, stale cache, check moved after the act, missing cleanup...) such that
 (a) the code still imports and the EXISTING test suite still passes (the tests do not notice it), and
 (b) the property above is now violated, but only under something specific: a particular interleaving of two processes, a crash or an I/O fault at a particular point, a multi-step sequence of operations, an unusual input shape, or two cooperating sites that each look fine alone. NOT something ordinary use would expose at once (if `brz commit`/`brz log`/... breaks visibly in normal use, it is too blunt).
{hint}
Steps:
 1. Read the anchored code and understand the mechanism that makes the property hold.
 2. Make the change (keep the diff small: a few lines, one or two sites). Pure-Python changes only (do not edit Rust sources).
 3. Write a demonstration: a small standalone Python program {wt}/demo_{pid}.py that exits 0 when the property holds on its scenario and exits 1 (printing what went wrong) when it is violated. It must FAIL (exit 1) with your change and PASS (exit 0) on the unmodified code (to check: `git diff -- breezy > /tmp/{pid}-seed.patch; git apply -R /tmp/{pid}-seed.patch; <run demo>; git apply /tmp/{pid}-seed.patch` - do NOT use git stash, the stash is shared with other worktrees). Run it as: cd {wt} && PYTHONPATH={wt} BRZ_HOME=/tmp/brzhome-{pid} HOME=/tmp/brzhome-{pid} BRZ_EMAIL='t <t@example.com>' /venv/bin/python demo_{pid}.py   (start the program with `import breezy; breezy.initialize(); import breezy.bzr, breezy.git`). In-memory transports (`memory:///`), temp dirs under /tmp, monkeypatched transports that fail or pause at a chosen operation are all fine for the demonstration.
 4. Confirm the existing tests still pass with your change: run the test modules that cover the files you touched, e.g. `cd {wt} && PYTHONPATH={wt} timeout 1500 /venv/bin/python -m pytest -q -p no:cacheprovider --timeout=900 -n 8 <test files or -k expr>`, and compare with the same command on the unmodified code (some tests fail even unmodified; what matters is that no test that passes unmodified fails with your change). Find the relevant tests with grep in breezy/tests, breezy/bzr/tests, breezy/git/tests, breezy/plugins/*/tests. If a test notices your change, pick a different change.
 5. Leave the change applied in the worktree (uncommitted), and write {wt}/SEED.md: the property id, what the change does, why the existing tests miss it, what exactly is needed for the violation to manifest, and the exact commands you ran (tests + demo) with their results.

Always use `timeout` on long commands. Do not leave background processes. Your final message: the diff (`git diff`), the demo's output with and without the change, and the test commands/results.""")
