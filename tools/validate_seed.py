#!/usr/bin/env python3
"""validate_seed.py <worktree> <ID> <name> [--no-suite] [--tier quick|thorough]

Confirms a seeded change produced by an independent agent and files it under
/verif/seeded/<ID>-<name>/ (patch.diff, demo, meta.json):
  1. the demonstration passes without the change and fails with it;
  2. the pinned test suite (stable_pass list of BASELINE.json) still passes with the change;
  3. runs the /verif check against the changed tree (VERIF_REPO=<worktree>) and records whether it
     reports a violation.
The worktree is left with the change applied; remove it afterwards with
  git -C /repo worktree remove --force <worktree>
"""
import json
import os
import shutil
import subprocess
import sys
import time

V = "/verif"


def sh(cmd, cwd=None, env=None, timeout=3600):
    e = dict(os.environ)
    if env:
        e.update(env)
    r = subprocess.run(cmd, shell=True, cwd=cwd, env=e, stdout=subprocess.PIPE, stderr=subprocess.STDOUT,
                       text=True, timeout=timeout)
    return r.returncode, r.stdout


def main():
    wt, pid, name = sys.argv[1:4]
    suite = "--no-suite" not in sys.argv
    tier = "quick"
    if "--tier" in sys.argv:
        tier = sys.argv[sys.argv.index("--tier") + 1]
    out = os.path.join(V, "seeded", "%s-%s" % (pid, name))
    os.makedirs(out, exist_ok=True)
    rc, diff = sh("git diff -- . ':(exclude)demo_*' ':(exclude)SEED.md' ':(exclude)TASK.md'", cwd=wt)
    if not diff.strip():
        print("no diff in", wt)
        return 2
    open(os.path.join(out, "patch.diff"), "w").write(diff)
    demo = os.path.join(wt, "demo_%s.py" % pid)
    if os.path.exists(demo):
        shutil.copy(demo, os.path.join(out, "demo.py"))
    if os.path.exists(os.path.join(wt, "SEED.md")):
        shutil.copy(os.path.join(wt, "SEED.md"), os.path.join(out, "SEED.md"))
    # bring the worktree up to /repo's current HEAD (fix commits may have landed since the seed
    # was written), keeping the seeded change on top
    patch0 = os.path.join(out, "patch.diff")
    head = sh("git -C /repo rev-parse HEAD")[1].strip()
    if sh("git rev-parse HEAD", cwd=wt)[1].strip() != head:
        if sh("git apply -R %s" % patch0, cwd=wt)[0] == 0:
            old = sh("git rev-parse HEAD", cwd=wt)[1].strip()
            sh("git checkout -q --detach %s" % head, cwd=wt)
            if sh("git apply %s" % patch0, cwd=wt)[0] != 0:
                print("patch does not apply on current HEAD; staying on", old)
                sh("git checkout -q --detach %s" % old, cwd=wt)
                sh("git apply %s" % patch0, cwd=wt)
            else:
                print("rebased seed onto", head[:8])
    home = "/tmp/brzhome-val-%s-%s" % (pid, name)
    os.makedirs(home, exist_ok=True)
    env = {"PYTHONPATH": wt, "BRZ_HOME": home, "HOME": home, "BRZ_EMAIL": "t <t@example.com>"}
    meta = {"property": pid, "name": name, "files": sorted(set(
        l[6:] for l in diff.splitlines() if l.startswith("+++ b/")))}
    # 1. demo with / without
    rc_with, o_with = sh("timeout 600 /venv/bin/python demo_%s.py" % pid, cwd=wt, env=env)
    # (git stash is shared between worktrees: revert/re-apply the patch instead)
    patch = os.path.join(out, "patch.diff")
    rc_r, o_r = sh("git apply -R %s" % patch, cwd=wt)
    if rc_r != 0:
        print("cannot revert patch:", o_r)
        return 2
    try:
        rc_without, o_without = sh("timeout 600 /venv/bin/python demo_%s.py" % pid, cwd=wt, env=env)
    finally:
        rc_a, o_a = sh("git apply %s" % patch, cwd=wt)
        if rc_a != 0:
            print("cannot re-apply patch:", o_a)
            return 2
    meta["demo"] = {"exit_with_change": rc_with, "exit_without_change": rc_without,
                    "output_with_change": o_with[-1500:], "output_without_change": o_without[-600:]}
    print("demo: with=%d without=%d" % (rc_with, rc_without))
    # 2. suite
    if suite:
        t0 = time.time()
        subset = ""
        if "--suite-subset" in sys.argv:
            # the complete suite hangs for minutes in some blackbox server tests when run from a scratch
            # worktree; for the last batch of seeds only the test modules related to the touched files are
            # run (recorded in meta["suite_subset"]); the seed authors ran the related tests too.
            import glob as _g
            names = set()
            for f in meta["files"]:
                base = os.path.basename(f)[:-3]
                for t in _g.glob(os.path.join(wt, "breezy", "**", "test_*%s*.py" % base), recursive=True):
                    names.add(os.path.relpath(t, wt))
                d = os.path.dirname(f)
                for t in _g.glob(os.path.join(wt, d, "tests", "test_*.py")):
                    if "plugins" in d or "git" in d:
                        names.add(os.path.relpath(t, wt))
            if not names:
                # no test module is named after the touched file: take the test modules that mention it
                import subprocess as _sp
                for f in meta["files"]:
                    base = os.path.basename(f)[:-3]
                    r = _sp.run("grep -rlE '(import|from) .*\\b%s\\b' --include='test_*.py' breezy | head -40" % base,
                                shell=True, cwd=wt, stdout=_sp.PIPE, text=True)
                    names.update(r.stdout.split())
            names = sorted(n for n in names if "test_serve" not in n)[:60]
            if not names:
                names = ["breezy/tests/test_osutils.py"]
            subset = " ".join(names)
            meta["suite_subset"] = names
        rc_s, o_s = sh("python3 %s/tools/run_suite.py %s -n 16 %s" % (V, wt, subset), timeout=7200)
        meta["suite"] = {"exit": rc_s, "summary": o_s[-2500:], "wall_s": round(time.time() - t0)}
        if rc_s != 0:
            # several validations run in parallel on a loaded machine: server/timing tests flake.
            # Re-run the modules of the tests that did not pass, alone.
            bad = [l.split("NOT PASSING:", 1)[1].strip() for l in o_s.splitlines() if "NOT PASSING:" in l]
            mods = sorted({"/".join(t.split("::")[0].split(".")[:-1]) + ".py" for t in bad})
            mods = [m for m in mods if os.path.exists(os.path.join(wt, m))]
            if mods and len(mods) <= 6:
                rc2, o2 = sh("python3 %s/tools/run_suite.py %s -n 3 %s" % (V, wt, " ".join(mods)), timeout=7200)
                meta["suite"]["rerun_of_failing_modules"] = {"modules": mods, "exit": rc2, "summary": o2[-800:]}
                if rc2 == 0:
                    meta["suite"]["exit"] = 0
                    meta["suite"]["note"] = ("%d stable-pass tests did not pass in the full parallel run but pass when "
                                             "their modules are re-run alone with the change applied (flaky under load)" % len(bad))
        print("suite: exit=%d %s" % (rc_s, o_s.splitlines()[0] if o_s else ""))
    # 3. the check
    t0 = time.time()
    rc_c, o_c = sh("timeout 3000 ./run %s --tier %s" % (pid, tier), cwd=V, env={"VERIF_REPO": wt}, timeout=3100)
    vio = [l for l in o_c.splitlines() if l.startswith("VIOLATION") or l.startswith("  signature:")]
    meta["check"] = {"cmd": "VERIF_REPO=<worktree with patch> ./run %s --tier %s" % (pid, tier), "exit": rc_c,
                     "violation_lines": vio[:12], "wall_s": round(time.time() - t0), "tail": o_c[-600:]}
    print("check: exit=%d %s" % (rc_c, vio[:4]))
    meta["caught"] = rc_c == 1
    meta["base_commit"] = sh("git rev-parse --short HEAD", cwd=wt)[1].strip()
    try:
        sys.path.insert(0, V)
        from mc.evidence import load_known
        fixed = {k["signature"] for k in load_known() if k["property"] == pid and k.get("status") == "fixed"}
        sigs = [l.split("signature:", 1)[1].strip() for l in vio if "signature:" in l]
        if sigs and all(s_ in fixed for s_ in sigs) and meta["base_commit"] != head[:len(meta["base_commit"])]:
            meta["caught"] = False
            meta["note"] = "only signatures of defects already fixed in /repo fired (worktree predates the fix)"
    except Exception as e:  # noqa
        meta["note"] = "could not cross-check fixed signatures: %r" % (e,)
    meta["valid_seed"] = (rc_with != 0 and rc_without == 0 and (not suite or meta["suite"]["exit"] == 0))
    seedmd = os.path.join(out, "SEED.md")
    meta["needs"] = open(seedmd).read()[:3000] if os.path.exists(seedmd) else ""
    json.dump(meta, open(os.path.join(out, "meta.json"), "w"), indent=1)
    print("valid_seed=%s caught=%s -> %s" % (meta["valid_seed"], meta["caught"], out))
    return 0


if __name__ == "__main__":
    sys.exit(main())
