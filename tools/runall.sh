#!/bin/sh
# runall.sh ID...: run the quick tier of the given checks on /repo, one after another; log exit codes
cd /verif
for id in "$@"; do
  s=$(date +%s)
  ./run $id --tier quick > /tmp/runall-$id.log 2>&1
  rc=$?
  echo "$id exit=$rc $(( $(date +%s) - s ))s $(grep -c '^KNOWN-FINDING' /tmp/runall-$id.log) known" >> /tmp/runall.log
done
