#!/bin/sh
# mkseed.sh <name>: create a scratch worktree /tmp/seed-<name> of /repo HEAD with the built extension modules
set -e
d=/tmp/seed-$1
git -C /repo worktree add --detach "$d" HEAD -q
cp /repo/breezy/*.so "$d/breezy/"
echo "$d"
