#!/usr/bin/env python3
"""Run the pinned test suite in a worktree and compare with BASELINE.json's stable_pass list.

usage: run_suite.py <worktree> [-n 16] [-k expr | paths...]
Prints the stable-pass tests that did not pass (exit 1 if any).
"""
import json
import os
import subprocess
import sys
import tempfile
import xml.etree.ElementTree as ET


def main():
    wt = sys.argv[1]
    rest = sys.argv[2:]
    n = "16"
    if "-n" in rest:
        i = rest.index("-n")
        n = rest[i + 1]
        del rest[i:i + 2]
    base = json.load(open("/root/.vp/BASELINE.json"))
    stable = set(base["stable_pass"])
    fd, xml = tempfile.mkstemp(suffix=".xml")
    os.close(fd)
    env = dict(os.environ)
    env.pop("BREEZY_VERIF", None)
    env.pop("VERIF_REPO", None)
    env["PYTHONPATH"] = wt
    cmd = ["/venv/bin/python", "-m", "pytest", "-q", "-p", "no:cacheprovider", "--timeout=300",
           "--continue-on-collection-errors", "-n", n, "--junitxml=" + xml] + rest
    r = subprocess.run(cmd, cwd=wt, env=env, stdout=subprocess.PIPE, stderr=subprocess.STDOUT, text=True)
    tail = r.stdout.strip().splitlines()[-3:]
    passed = set()
    seen = set()
    for tc in ET.parse(xml).getroot().iter("testcase"):
        tid = "%s::%s" % (tc.get("classname"), tc.get("name"))
        seen.add(tid)
        if not any(ch.tag in ("failure", "error", "skipped") for ch in tc):
            passed.add(tid)
    os.unlink(xml)
    if rest:
        scope = stable & seen
    else:
        scope = stable
    broken = sorted(scope - passed)
    # tests that need /repo's own untracked ./branch/.bzr directory fail in ANY clean worktree
    # (verified on an unmodified worktree): not attributable to a change under test
    if os.path.realpath(wt) != "/repo":
        art = [t for t in broken if t.startswith("breezy.tests.blackbox.test_version.") or
               t.startswith("breezy.tests.test_version.")]
        if art:
            print("  (ignored: %d test_version tests that fail in every clean worktree)" % len(art))
            broken = [t for t in broken if t not in art]
    print("suite: %d stable-pass tests in scope, %d passed, %d not passing; pytest: %s" % (
        len(scope), len(scope & passed), len(broken), " | ".join(tail)))
    for b in broken[:40]:
        print("  NOT PASSING:", b)
    return 1 if broken else 0


if __name__ == "__main__":
    sys.exit(main())
