#!/bin/sh
# seedq.sh ID name ... : validate seeds sequentially, remove worktrees, log to /tmp/seedq.log
cd /verif
while [ $# -ge 2 ]; do
  id=$1; name=$2; shift 2
  echo "=== $id-$name $(date +%H:%M)" >> /tmp/seedq.log
  python3 tools/validate_seed.py /tmp/seed-$id-$name $id $name $SEEDQ_OPTS >> /tmp/seedq.log 2>&1
  git -C /repo worktree remove --force /tmp/seed-$id-$name >> /tmp/seedq.log 2>&1
done
