#!/usr/bin/env python3
"""Merge known_findings.d/*.json into the single committed file known_findings.json (the .d files are
the per-property sources written with the checks; the merged file is what the brief calls the
known-findings file).  Entries are keyed by (property, signature)."""
import glob, json
V='/verif'
base=json.load(open(V+'/known_findings.json'))
seen={}
for f in base['findings']:
    if f.get('source')!='known_findings.d': seen[(f['property'],f['signature'])]=f
for p in sorted(glob.glob(V+'/known_findings.d/*.json')):
    for f in json.load(open(p))['findings']:
        f=dict(f); f['source']='known_findings.d'
        seen[(f['property'],f['signature'])]=f
base['findings']=[seen[k] for k in sorted(seen)]
base['comment']=("Genuine defects of /repo found by the checks. status=known: recorded, not repaired (the check prints "
 "'KNOWN-FINDING: property=<id> <what>' and exits 0); status=fixed: repaired by the named 'fix:' commit in /repo, "
 "i.e. 'fixed: property=<id> <commit> <what>' (suppresses nothing: if the violation returns the check exits 1). "
 "Matched by (property, signature); never written at run time. Per-property sources: known_findings.d/<ID>.json, merged here by tools/merge_known.py.")
json.dump(base,open(V+'/known_findings.json','w'),indent=1); open(V+'/known_findings.json','a').write('\n')
print(len(base['findings']),'entries;', sum(1 for f in base['findings'] if f.get('status')=='fixed'),'fixed')
