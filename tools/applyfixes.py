#!/usr/bin/env python3
"""applyfixes.py <name> ...: apply /verif/mutants/<name>.diff to /repo as one 'fix:' commit each,
mark the repaired signatures fixed in known_findings.d."""
import glob, json, re, subprocess, sys
def main():
    sig2c = {}
    for f in sys.argv[1:]:
        p = '/verif/mutants/%s.diff' % f
        pid0 = f.split('-')[0]
        msg = []; sigs = []; mode = 'msg'
        for l in open(p).read().splitlines():
            if not l.startswith('#'): break
            t = l[2:] if l.startswith('# ') else l[1:]
            ts = t.strip()
            if ts.startswith('Signatures repaired'): mode = 'sig'; continue
            if re.match(r'^(Check run|Tests?\b|Test )', ts): mode = 'end'; continue
            if mode == 'sig':
                if ts:
                    toks = ts.split(None, 1)
                    if re.match(r'^C\d\d$', toks[0]) and len(toks) > 1: sigs.append((toks[0], toks[1].strip()))
                    else: sigs.append((pid0, ts))
            elif mode == 'msg': msg.append(t)
        message = '\n'.join(msg).strip() + '\n'
        r = subprocess.run(['git', '-C', '/repo', 'apply', '--check', p], capture_output=True, text=True)
        if r.returncode != 0:
            print('SKIP', f, r.stderr[:300]); continue
        subprocess.check_call(['git', '-C', '/repo', 'apply', p])
        subprocess.check_call(['git', '-C', '/repo', 'commit', '-qam', message])
        c = subprocess.check_output(['git', '-C', '/repo', 'log', '--format=%h', '-1'], text=True).strip()
        print(f, c, message.splitlines()[0])
        for s in sigs: sig2c[s] = c
    found = set()
    for p in glob.glob('/verif/known_findings.d/*.json'):
        d = json.load(open(p)); ch = False
        for x in d['findings']:
            k = (x['property'], x['signature'])
            # signatures in patch headers may carry trailing remarks: match on prefix token
            for (pid, s), c in sig2c.items():
                if pid == k[0] and (s == k[1] or s.split()[0] == k[1]):
                    found.add((pid, s))
                    if x.get('status') != 'fixed':
                        x['status'] = 'fixed'; x['commit'] = c; ch = True
        if ch:
            json.dump(d, open(p, 'w'), indent=1); print('updated', p)
    print('signatures not found in known findings:', [k for k in sig2c if k not in found])
main()
