#!/usr/bin/env python3
"""recheck_flaky.py <ID-name>: re-run, alone, the modules of stable-pass tests that did not pass in a
seed's full-suite run (in a fresh worktree with the seeded patch), and update meta.json."""
import json, os, subprocess, sys
V='/verif'
def sh(c,cwd=None):
    r=subprocess.run(c,shell=True,cwd=cwd,stdout=subprocess.PIPE,stderr=subprocess.STDOUT,text=True); return r.returncode,r.stdout
name=sys.argv[1]
d=os.path.join(V,'seeded',name); m=json.load(open(d+'/meta.json'))
bad=[l.split('NOT PASSING:',1)[1].strip() for l in m['suite']['summary'].splitlines() if 'NOT PASSING:' in l and 'test_version' not in l]
if not bad: print('nothing to recheck'); sys.exit(0)
wt='/tmp/wt-flaky-'+name
base=m.get('base_commit') or 'HEAD'
sh('git -C /repo worktree add --detach %s %s -q'%(wt,base)); sh('cp /repo/breezy/*.so %s/breezy/'%wt)
rc,o=sh('git apply %s/patch.diff'%d,cwd=wt)
if rc!=0: print('patch does not apply',o); sh('git -C /repo worktree remove --force '+wt); sys.exit(2)
mods=sorted({'/'.join(t.split('::')[0].split('.')[:-1])+'.py' for t in bad})
rc2,o2=sh('python3 %s/tools/run_suite.py %s -n 3 %s'%(V,wt,' '.join(mods)))
m['suite']['rerun_of_failing_modules']={'modules':mods,'exit':rc2,'summary':o2[-800:]}
if rc2==0:
    m['suite']['exit']=0
    m['suite']['note']='%d stable-pass tests did not pass in the full parallel run but pass when their modules are re-run alone with the change applied (flaky under load)'%len(bad)
    m['valid_seed']= m['demo']['exit_with_change']!=0 and m['demo']['exit_without_change']==0
json.dump(m,open(d+'/meta.json','w'),indent=1)
print(name,'rerun exit',rc2,'valid',m['valid_seed'])
sh('git -C /repo worktree remove --force '+wt)
