#!/usr/bin/env python3
"""recheck_seed.py <seed-name> [CHECK-ID]: re-run (only) the check against a filed seed on /repo HEAD
(after the check was strengthened) and update meta.json (caught / caught_by)."""
import json, os, subprocess, sys, time
V='/verif'
def sh(c,cwd=None,env=None,timeout=7200):
    e=dict(os.environ); e.update(env or {})
    r=subprocess.run(c,shell=True,cwd=cwd,env=e,stdout=subprocess.PIPE,stderr=subprocess.STDOUT,text=True,timeout=timeout); return r.returncode,r.stdout
name=sys.argv[1]; d=os.path.join(V,'seeded',name); m=json.load(open(d+'/meta.json'))
pid=sys.argv[2] if len(sys.argv)>2 else m['property']
wt='/tmp/wt-recheck-'+name
sh('git -C /repo worktree add --detach %s HEAD -q'%wt); sh('cp /repo/breezy/*.so %s/breezy/'%wt)
rc,o=sh('git apply %s/patch.diff'%d,cwd=wt)
if rc!=0:
    print('patch does not apply on HEAD:',o[:300]); sh('git -C /repo worktree remove --force '+wt); sys.exit(2)
t0=time.time()
rc_c,o_c=sh('timeout 6000 ./run %s --tier quick'%pid,cwd=V,env={'VERIF_REPO':wt})
vio=[l for l in o_c.splitlines() if l.startswith('VIOLATION') or l.startswith('  signature:')]
hist=m.setdefault('earlier_check_runs',[]); hist.append(m['check'])
m['check']={'cmd':'VERIF_REPO=<worktree: /repo HEAD %s + patch> ./run %s --tier quick'%(sh('git -C /repo rev-parse --short HEAD')[1].strip(),pid),'exit':rc_c,'violation_lines':vio[:12],'wall_s':round(time.time()-t0),'tail':o_c[-500:]}
m['caught']= rc_c==1
if m['caught']: m['caught_by']=pid
m.pop('note',None)
json.dump(m,open(d+'/meta.json','w'),indent=1)
print(name,'check',pid,'exit',rc_c,vio[:4])
sh('git -C /repo worktree remove --force '+wt)
