#!/usr/bin/env python3
"""Regenerate the generated part of DESIGN.md section 8 (between the AUTO markers) from
/repo's fix commits, known findings, seeded/*/meta.json, evidence/*.json and claimed.txt."""
import glob
import json
import os
import re
import subprocess

V = "/verif"
BEGIN = "<!-- AUTO-STATUS-BEGIN -->"
END = "<!-- AUTO-STATUS-END -->"


def known():
    out = []
    for p in [V + "/known_findings.json"] + sorted(glob.glob(V + "/known_findings.d/*.json")):
        out.extend(json.load(open(p))["findings"])
    d = {}
    for k in out:
        d[(k["property"], k["signature"])] = k
    return list(d.values())


def main():
    props = [json.loads(l) for l in open(V + "/properties.jsonl")]
    kf = known()
    claimed = {c["property_id"] for c in json.load(open(V + "/MANIFEST.json"))["checks"]}
    lines = []
    # ---- fixes
    log = subprocess.check_output(["git", "-C", "/repo", "log", "--reverse", "--format=%h %s", "0e9787b..HEAD"], text=True)
    by_commit = {}
    for k in kf:
        if k.get("status") == "fixed":
            by_commit.setdefault(k["commit"][:7], []).append(k)
    lines.append("### 8.2 Genuine defects repaired in /repo (\"fix:\" commits)\n")
    lines.append("Each is one minimal unguarded commit; the pinned suite's 7726 stable-pass tests pass on the resulting")
    lines.append("HEAD (`tools/run_suite.py /repo`). The signatures below are recorded as `fixed` (they suppress nothing:")
    lines.append("if the defect returns, the check exits 1).\n")
    lines.append("| commit | property | subject | signatures repaired |")
    lines.append("|---|---|---|---|")
    nfix = 0
    for l in log.splitlines():
        h, subj = l.split(" ", 1)
        if not subj.startswith("fix:"):
            continue
        nfix += 1
        ks = by_commit.get(h[:7], [])
        pids = ",".join(sorted({k["property"] for k in ks})) or "?"
        sigs = "; ".join("`%s`" % k["signature"] for k in ks[:4]) + (" (+%d)" % (len(ks) - 4) if len(ks) > 4 else "")
        lines.append("| %s | %s | %s | %s |" % (h, pids, subj[5:].replace("|", "/"), sigs))
    lines.append("")
    # ---- seeded
    lines.append("### 8.3 Which checks catch which independently seeded changes\n")
    lines.append("Written by sub-agents that saw only the property text and a scratch worktree; confirmed with")
    lines.append("`tools/validate_seed.py` (demonstration, pinned suite, check run against the changed tree).\n")
    lines.append("| seed | files | valid | caught | signatures reported by the check |")
    lines.append("|---|---|---|---|---|")
    nseed = ncaught = 0
    for f in sorted(glob.glob(V + "/seeded/*/meta.json")):
        m = json.load(open(f))
        name = f.split("/")[-2]
        sigs = [l.split("signature:", 1)[1].strip() for l in m["check"]["violation_lines"] if "signature:" in l]
        nseed += 1
        ncaught += bool(m["caught"])
        by = m.get("caught_by", m["property"])
        lines.append("| %s | %s | %s | %s | %s |" % (
            name, ", ".join(x.replace("breezy/", "") for x in m.get("files", [])), "yes" if m["valid_seed"] else "NO",
            ("yes (%s)" % by) if m["caught"] else "**no**" + (" - " + m.get("note", "") if m.get("note") else ""),
            "; ".join("`%s`" % s for s in sigs[:3])))
    lines.append("")
    lines.append("%d seeded changes filed, %d caught.\n" % (nseed, ncaught))
    # ---- per property
    lines.append("### 8.4 Per-property status (from the last committed evidence files)\n")
    lines.append("| id | claimed | level | tier | evaluations | states | known findings (open) | fixed | check |")
    lines.append("|---|---|---|---|---|---|---|---|---|")
    for p in props:
        pid = p["id"]
        ev = None
        ep = V + "/evidence/%s.json" % pid
        if os.path.exists(ep):
            try:
                ev = json.load(open(ep))
            except Exception:
                ev = None
        cov = ev["coverage"] if ev else {}
        opn = sum(1 for k in kf if k["property"] == pid and k.get("status") == "known")
        fx = sum(1 for k in kf if k["property"] == pid and k.get("status") == "fixed")
        lines.append("| %s | %s | %s | %s | %s | %s | %d | %d | checks/%s.py |" % (
            pid, "yes" if pid in claimed else "no", ev["level"] if ev else "-", ev["tier"] if ev else "-",
            cov.get("evaluations", cov.get("traces_validated_against_impl", "-")), cov.get("states", "-"), opn, fx, pid.lower()))
    lines.append("")
    lines.append("Open known findings: %d signatures; repaired: %d signatures in %d fix commits." % (
        sum(1 for k in kf if k.get("status") == "known"), sum(1 for k in kf if k.get("status") == "fixed"), nfix))
    text = "\n".join(lines)
    p = V + "/DESIGN.md"
    s = open(p).read()
    if BEGIN in s:
        s = s[:s.index(BEGIN)] + BEGIN + "\n" + text + "\n" + END + s[s.index(END) + len(END):]
    else:
        # replace the hand-written 8.2/8.3 by the generated block
        i = s.index("### 8.2 Genuine defects repaired")
        s = s[:i] + BEGIN + "\n" + text + "\n" + END + "\n"
    open(p, "w").write(s)
    print("fix commits:", nfix, "seeds:", nseed, "caught:", ncaught)


main()
